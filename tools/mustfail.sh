#!/bin/bash
# Must-fail corpus: every hand-made mutant (mutants/<Cxx>/*.diff) and every confirmed
# agent-made change (seeded/<Cxx>-*/patch.diff) must make the check of its property exit 1
# with a VIOLATION line. Run after every engine or contract change.
# usage: tools/mustfail.sh [Cxx ...]     (default: all properties that have a corpus)
cd "$(dirname "$0")/.."
props="$*"
# build the engine once, then forbid rebuilds during the run (an engine edit in progress must not break it)
./check -h >/dev/null 2>&1 || true
export VERIF_NO_REBUILD=1
[ -z "$props" ] && props=$(ls mutants seeded benign 2>/dev/null | grep -o '^C[0-9][0-9]' | sort -u)
bad=0; n=0
for p in $props; do
  for d in mutants/$p/*.diff seeded/$p-*/patch.diff; do
    [ -f "$d" ] || continue
    n=$((n+1))
    out=$(python3 tools/mutant.py $p $d 2>&1); rc=$?
    nv=$(echo "$out" | grep -c '^VIOLATION')
    conf=$(echo "$out" | grep -c 'replay:.*confirmed')
    if [ $rc -eq 1 ] && [ $nv -gt 0 ]; then
      echo "caught   $p $d violations=$nv replay-confirmed=$conf"
    else
      echo "MISSED   $p $d rc=$rc"; bad=$((bad+1))
    fi
  done
done
# benign corpus: behaviour-preserving edits (refactors) on which every check must stay quiet
nb=0; fa=0
for p in $props; do
  for d in benign/$p/*.diff; do
    [ -f "$d" ] || continue
    nb=$((nb+1))
    out=$(python3 tools/mutant.py $p $d 2>&1); rc=$?
    if [ $rc -eq 0 ]; then echo "quiet    $p $d"; else echo "FALSE-ALARM $p $d rc=$rc"; echo "$out" | grep '^VIOLATION' | cut -c1-200; fa=$((fa+1)); fi
  done
done
echo "must-fail corpus: $n changes, $bad missed; benign corpus: $nb edits, $fa false alarms"
bad=$((bad+fa))
[ $bad -eq 0 ]
