#!/bin/bash
# Copies the contract files (comment-only, //go:build verif) from the mirror into /repo and commits them as a guarded hook commit.
set -e
cd /verif/contracts/repo
find . -name zz_contracts_verif.go | while read f; do mkdir -p "/repo/$(dirname $f)"; cp "$f" "/repo/$f"; done
cd /repo
git add -A '*zz_contracts_verif.go'
if ! git diff --cached --quiet; then git commit -qm "verif hooks: contract files (comment-only, build tag verif)"; echo "hooks committed: $(git rev-parse --short HEAD)"; else echo "hooks unchanged"; fi
