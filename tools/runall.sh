#!/bin/bash
# runs every claimed check (quick by default) and prints one line per property
cd "$(dirname "$0")/.."
tier=${1:-quick}
rc=0
for p in $(python3 -c "import json;print(' '.join(c['property_id'] for c in json.load(open('MANIFEST.json'))['checks']))"); do
  out=$(./check $p $tier 2>&1); r=$?
  echo "$out" | grep "^VIOLATION" | cut -c1-200
  echo "$out" | tail -1
  [ $r -ne 0 ] && rc=1
done
exit $rc
