#!/usr/bin/env python3
"""Run one check against a mutant of /repo without touching /repo.

usage: mutant.py <property> <patch.diff> [extra govc flags...]
The patch (git diff format, paths relative to the repo root) is applied to
scratch copies of the files it names; the copies are handed to the verifier
through go/packages' Overlay, so the verified text is /repo's working tree
with exactly the patch on top.  Exit status is the check's exit status.
"""
import json, os, re, shutil, subprocess, sys, tempfile

def main():
    prop, patch = sys.argv[1], os.path.abspath(sys.argv[2])
    extra = sys.argv[3:]
    repo = os.environ.get("VERIF_REPO", "/repo")
    here = os.path.dirname(os.path.dirname(os.path.abspath(__file__)))
    files = []
    for l in open(patch):
        m = re.match(r"^\+\+\+ [ab]/([^\t\n]*)", l)
        if m and m.group(1) not in files:
            files.append(m.group(1))
    tmp = tempfile.mkdtemp(prefix="vmut")
    try:
        for f in files:
            dst = os.path.join(tmp, f)
            os.makedirs(os.path.dirname(dst), exist_ok=True)
            src = os.path.join(repo, f)
            if os.path.exists(src):
                shutil.copy(src, dst)
        r = subprocess.run(["patch", "-p1", "-s", "-i", patch], cwd=tmp, capture_output=True, text=True)
        if r.returncode != 0:
            print("patch failed:", r.stdout, r.stderr)
            return 3
        ov = {os.path.join(repo, f): os.path.join(tmp, f) for f in files}
        ovf = os.path.join(tmp, "overlay.json")
        json.dump(ov, open(ovf, "w"))
        env = dict(os.environ)
        env["PATH"] = "/opt/veriftools/go1.26.8/bin:" + env["PATH"]
        env.update(GOTOOLCHAIN="local", GOPROXY="off", GOSUMDB="off", VERIF_ROOT=here, VERIF_REPLAYS=os.path.join(tmp, "replays"))
        env.pop("GOFLAGS", None)
        r = subprocess.run([os.path.join(here, "check"), "-overlay", ovf, "-no-evidence"] + extra + [prop, "quick"], env=env)
        rd = os.path.join(tmp, "replays")
        if os.path.isdir(rd):
            for f in sorted(os.listdir(rd)):
                if f.endswith(".json"):
                    d = json.load(open(os.path.join(rd, f)))
                    msg = d.get("replay_result") or d.get("replay_skipped") or "no replay attempted"
                    print("  replay:", d.get("obligation", "")[:90], "->", msg)
                    if os.environ.get("SHOW_REPLAY") and d.get("replay_test"):
                        print(d["replay_test"]["source"]); print(d.get("replay_output", "")[-1500:])
        return r.returncode
    finally:
        shutil.rmtree(tmp, ignore_errors=True)

sys.exit(main())
