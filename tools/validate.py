import json, sys, glob, jsonschema  # run with python3-vt
jsonschema.validate(json.load(open('/verif/MANIFEST.json')), json.load(open('/root/.vp/MANIFEST.schema.json')))
es = json.load(open('/root/.vp/EVIDENCE.schema.json'))
for f in sorted(glob.glob('/verif/evidence/*.json')):
    jsonschema.validate(json.load(open(f)), es)
print('manifest and', len(glob.glob('/verif/evidence/*.json')), 'evidence files valid')
