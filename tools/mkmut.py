#!/usr/bin/env python3
"""mkmut.py <out.diff> <repo-relative-file> <old> <new> [<old> <new> ...]: builds a unified diff replacing text in a scratch copy."""
import sys, os, subprocess, tempfile, shutil
out, rel = sys.argv[1], sys.argv[2]
pairs = sys.argv[3:]
src = open(os.path.join('/repo', rel)).read()
new = src
for i in range(0, len(pairs), 2):
    o, n = pairs[i].encode().decode('unicode_escape'), pairs[i+1].encode().decode('unicode_escape')
    if new.count(o) != 1:
        print("pattern occurs", new.count(o), "times:", o[:60]); sys.exit(1)
    new = new.replace(o, n)
tmp = tempfile.mkdtemp()
os.makedirs(os.path.join(tmp, 'a', os.path.dirname(rel))); os.makedirs(os.path.join(tmp, 'b', os.path.dirname(rel)))
open(os.path.join(tmp, 'a', rel), 'w').write(src); open(os.path.join(tmp, 'b', rel), 'w').write(new)
r = subprocess.run(['diff', '-u', os.path.join('a', rel), os.path.join('b', rel)], cwd=tmp, capture_output=True, text=True)
mode = 'a' if os.path.exists(out) and os.environ.get('APPEND') else 'w'
open(out, mode).write(r.stdout)
shutil.rmtree(tmp)
print("wrote", out, len(r.stdout.splitlines()), "lines")
