#!/bin/bash
# Proof-stability probe: every query of a property is re-run under several solver seeds; an
# obligation that only some seeds decide is a brittle proof (a future false alarm).
# usage: tools/stability.sh <Cxx> [substring]
cd "$(dirname "$0")/.."
p=$1; only=${2:-}
rm -rf .work/$p-*
if [ -n "$only" ]; then ./check -keep -no-evidence -only "$only" $p quick >/dev/null 2>&1; else ./check -keep -no-evidence $p quick >/dev/null 2>&1; fi
d=$(ls -dt .work/$p-* | head -1)
for f in $(ls $d/*.smt2 | grep -v sliced); do
  ok=0; tot=0
  for seed in 0 1 2 3 4; do
    r=$(z3-new -T:10 smt.random_seed=$seed sat.random_seed=$seed $f 2>/dev/null | head -1)
    tot=$((tot+1)); case "$r" in unsat|sat) ok=$((ok+1));; esac
  done
  if [ $ok -lt $tot ]; then echo "$ok/$tot $f $(grep '^(assert (not' $f | tail -1 | cut -c1-160)"; fi
done
rm -rf $d
