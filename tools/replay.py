import json, sys, os, subprocess, tempfile
d = json.load(open(sys.argv[1]))
print("property:", d.get("property")); print("obligation:", d.get("obligation")); print("result:", d.get("result"), "by", d.get("solver"))
t = d.get("replay_test")
if not t:
    print("no generated test (no-failing-input-found); solver output follows"); print(d.get("solver_output", "")[:4000]); sys.exit(1)
tmp = tempfile.mkdtemp(prefix="vreplay")
tf = os.path.join(tmp, "zz_replay_test.go"); open(tf, "w").write(t["source"])
ov = os.path.join(tmp, "ov.json"); json.dump({"Replace": {os.path.join(t["pkg_dir"], "zz_replay_test.go"): tf}}, open(ov, "w"))
r = subprocess.run(["go", "test", "-overlay", ov, "-vet=off", "-count=1", "-timeout", "60s", "-run", "TestVerifReplay", "."], cwd=t["pkg_dir"], capture_output=True, text=True)
print(r.stdout[-4000:]); print(r.stderr[-2000:])
subprocess.run(["rm", "-rf", tmp])
sys.exit(1 if r.returncode != 0 else 0)
