#!/usr/bin/env python3
"""unsatcore.py file.smt2 : names every assert and prints the unsat core (debug aid)."""
import sys, re, subprocess, tempfile
src=open(sys.argv[1]).read().split("\n")
out=["(set-option :produce-unsat-cores true)"]; names={}
n=0
for l in src:
    if l.startswith("(assert ") and "(get-model)" not in l:
        n+=1; nm=f"a{n}"; names[nm]=l
        out.append(f"(assert (! {l[8:-1]} :named {nm}))")
    elif l.startswith("(get-model)") or l.startswith("(get-value"):
        continue
    else:
        out.append(l)
out.append("(get-unsat-core)")
f=tempfile.NamedTemporaryFile("w",suffix=".smt2",delete=False); f.write("\n".join(out)); f.close()
r=subprocess.run(["z3-new","-T:30",f.name],capture_output=True,text=True).stdout
print(r.split("\n")[0])
for nm in re.findall(r"a\d+", r):
    if nm in names: print(nm, names[nm][:400])
