#!/bin/bash
# Builds the verifier offline from /verif/engine (x/tools v0.50.0 from the module cache).
set -e
cd "$(dirname "$0")"
export PATH=/opt/veriftools/go1.26.8/bin:$PATH GOTOOLCHAIN=local GOPROXY=off GOSUMDB=off
mkdir -p bin
(cd engine && GOFLAGS=-mod=mod go build -o ../bin/govc .)
# warm the go list / type-check path for the three modules (cgo-free; a few seconds)
(cd /repo && go list ./core/... ./extras/... ./app/... >/dev/null 2>&1 || true)
echo "setup ok"
