#!/usr/bin/env python3
"""Regenerates MANIFEST.json from claims.json (claimed properties) and properties.jsonl."""
import json, os, subprocess
here = os.path.dirname(os.path.abspath(__file__))
claims = json.load(open(os.path.join(here, "claims.json")))
props = [json.loads(l) for l in open(os.path.join(here, "properties.jsonl"))]
ENV = "PATH=/opt/veriftools/go1.26.8/bin:$PATH GOTOOLCHAIN=local GOPROXY=off GOSUMDB=off"
checks, na = [], []
for p in props:
    pid = p["id"]
    c = claims["claimed"].get(pid)
    if c is None:
        na.append({"property_id": pid, "reason": claims["not_applicable"].get(pid, "contracts for this property are not built yet; no weaker technique is substituted")})
        continue
    checks.append({
        "property_id": pid,
        "quick_cmd": f"./check {pid} quick",
        "thorough_cmd": f"./check {pid} thorough",
        "evidence_file": f"/verif/evidence/{pid}.json",
        "replay_cmd_template": "./replay {path}",
        "engine": "govc",
        "level_claimed": {"category": "proof", "text": c["text"], "design_ref": c.get("design_ref", "DESIGN.md section 9, " + pid)},
        "level_note": c["note"],
        "technique": c.get("technique", "contract-based deductive verification: weakest-precondition VCs generated from go/ssa of the real code, contracts in guarded comment files, discharged by z3/cvc5"),
    })
try:
    hook_commits = subprocess.check_output(["git", "-C", "/repo", "log", "--format=%H %s", "--grep=^verif hooks"], text=True).split("\n")
    hook_commits = [l.split()[0] for l in hook_commits if l.strip()]
except Exception:
    hook_commits = []
m = {
    "version": 1,
    "setup_cmd": f"{ENV} ./setup.sh",
    "hooks": {
        "guard": "verif",
        "enable": "go build tag `verif`: comment-only contract files zz_contracts_verif.go (//go:build verif) next to the code; the verifier loads packages with -tags=verif; no executable code is added",
        "baseline_off_cmd": f"for m in app core extras; do (cd /repo/$m && {ENV} go test -vet=off -count=1 -timeout 25m ./...); done",
        "source_commits": hook_commits,
        "add_only": True,
    },
    "engines": [{"name": "govc", "path": "/verif/engine", "serves_properties": [c["property_id"] for c in checks],
                 "kind_free_text": "deductive verifier for a Go subset written for this task: go/packages + go/ssa front end, Gobra-style contracts, passive-form VCs, z3 5.1 / z3 4.8 / cvc5 back ends"}],
    "checks": checks,
    "not_applicable": na,
    "notes": claims.get("notes", ""),
}
json.dump(m, open(os.path.join(here, "MANIFEST.json"), "w"), indent=1)
print("MANIFEST.json:", len(checks), "checks,", len(na), "not applicable")
