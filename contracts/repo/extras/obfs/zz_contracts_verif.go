//go:build verif

// Contracts for the deductive verifier under /verif (comment-only; no declarations).
package obfs

// ---------------------------------------------------------------------------
// Salamander (C13). The wire format is taken from PROTOCOL.md: 8 salt bytes, then
// the payload XORed with BLAKE2b-256(key || salt) repeated. keyId(o) is the content
// identity of the pre-shared key, so two obfuscators "have the same key" exactly
// when their keyIds are equal.

//@ spec func keyId(o) = hseq(row(o.PSK), off(o.PSK), len(o.PSK))
//@ spec func kbyte(o, s, j) = hbyte(cat8(keyId(o), s[0], s[1], s[2], s[3], s[4], s[5], s[6], s[7]), j)

//@ ghost var lkHeld Bool
//@ hook call (*Mutex).Lock(m)
//@   update lkHeld = true
//@ hook call (*Mutex).Unlock(m)
//@   update lkHeld = false
//@ guard call (*Mutex).Lock(m)
//@   requires !lkHeld
//@ guard call (*Mutex).Unlock(m)
//@   requires lkHeld
//@ guard call keyLocked(o2, salt) in (*salamanderObfuscator).Obfuscate | (*salamanderObfuscator).Deobfuscate
//@   props C13
//@   requires lkHeld && o2 == o

//@ objinv salamanderObfuscator: len(this.PSK) >= 4 && len(this.keyInput) == len(this.PSK) + 8 && base(this.keyInput) != base(this.PSK) && this.RandSrc != nil
//@ objinv salamanderObfuscator: forall(k, 0, len(this.PSK), this.keyInput[k] == this.PSK[k])

//@ func (*salamanderObfuscator).keyLocked
//@   props C13 C03
//@   requires len(salt) >= 8 && base(salt) != base(o.keyInput) && base(salt) != base(o.PSK)
//@   ensures forall(j, 0, 32, ret[j] == kbyte(o, salt, j) && 0 <= ret[j] && ret[j] <= 255)
//@   modifies o.keyInput[len(o.PSK):len(o.PSK)+8]
//@   use HSEQ_CAT8(row(o.keyInput), off(o.keyInput), len(o.keyInput))

//@ hook after call blake2b.Sum256(d) (h) in (*salamanderObfuscator).keyLocked
//@   use HSEQ_CAT8(row(d), off(d), len(d))
//@   use HSEQ_EXT(row(d), off(d), row(o.PSK), off(o.PSK), len(o.PSK))
//@ guard call blake2b.Sum256(d) in (*salamanderObfuscator).keyLocked
//@   props C13
//@   requires d == o.keyInput

// Obfuscate: 0 and nothing written when out is too small; otherwise out is
// salt(8) ++ (in XOR key stream) and the result is len(in)+8.
//@ func (*salamanderObfuscator).Obfuscate
//@   props C13 C03
//@   requires !lkHeld && base(in) != base(out) && base(in) != base(o.keyInput) && base(out) != base(o.keyInput) && base(out) != base(o.PSK) && base(in) != base(o.PSK)
//@   ensures !lkHeld
//@   ensures len(out) < len(in) + 8 ==> ret == 0 && forall(k, 0, len(out), out[k] == old(out[k]))
//@   ensures len(out) >= len(in) + 8 ==> ret == len(in) + 8 && forall(i, 0, len(in), out[8+i] == xor8(in[i], kbyte(o, out, i % 32)))
//@   ensures forall(k, 0, len(in), in[k] == old(in[k]))
//@   modifies out[0:len(out)], o.keyInput[len(o.PSK):len(o.PSK)+8], lkHeld
//@   loop 0
//@     invariant forall(i, 0, rangeindex + 1, out[8+i] == xor8(in[i], key[i % 32]))
//@     invariant forall(j, 0, 32, key[j] == kbyte(o, out, j))
//@     invariant forall(k, 0, len(in), in[k] == old(in[k])) && !lkHeld

// Deobfuscate: 0 and nothing written for packets without a payload byte or when
// out is too small; otherwise the inverse transform, result len(in)-8.
//@ func (*salamanderObfuscator).Deobfuscate
//@   props C13 C03
//@   requires !lkHeld && base(in) != base(out) && base(in) != base(o.keyInput) && base(out) != base(o.keyInput) && base(out) != base(o.PSK) && base(in) != base(o.PSK)
//@   ensures !lkHeld
//@   ensures len(in) <= 8 || len(out) < len(in) - 8 ==> ret == 0 && forall(k, 0, len(out), out[k] == old(out[k]))
//@   ensures len(in) > 8 && len(out) >= len(in) - 8 ==> ret == len(in) - 8 && forall(i, 0, len(in) - 8, out[i] == xor8(in[8+i], kbyte(o, in, i % 32)))
//@   ensures forall(k, 0, len(in), in[k] == old(in[k]))
//@   modifies out[0:len(out)], o.keyInput[len(o.PSK):len(o.PSK)+8], lkHeld
//@   loop 0
//@     invariant forall(i, 0, rangeindex + 1, out[i] == xor8(in[8+i], key[i % 32]))
//@     invariant forall(j, 0, 32, key[j] == kbyte(o, in, j))
//@     invariant forall(k, 0, len(in), in[k] == old(in[k])) && !lkHeld

// transparency: applying the same key byte twice restores the payload byte
//@ lemma SALAMANDER_RT C13: forall(p, forall(k, 0 <= p && p <= 255 && 0 <= k && k <= 255 ==> xor8(xor8(p, k), k) == p))

//@ func newSalamanderObfuscator
//@   props C13
//@   ensures len(psk) < 4 ==> ret0 == nil && !isnil(ret1)
//@   ensures len(psk) >= 4 ==> ret0 != nil && isnil(ret1) && len(ret0.PSK) == len(psk) && len(ret0.keyInput) == len(psk) + 8 && forall(k, 0, len(psk), ret0.PSK[k] == psk[k] && ret0.keyInput[k] == psk[k])

// ---------------------------------------------------------------------------
// The wrapped socket (C13): junk is skipped, byte counts are those of the
// original packet, the shared buffers are used under their mutexes.

//@ ghost var lastInnerN Int
//@ ghost var obfN Int
//@ ghost var innerWrites Int

//@ iface obfuscator.Obfuscate(ob, in, out) (n)
//@   ensures 0 <= n && n <= len(out)
//@   modifies out[0:len(out)]
//@ iface obfuscator.Deobfuscate(ob, in, out) (n)
//@   ensures 0 <= n && n <= len(out)
//@   modifies out[0:len(out)]

//@ hook after call PacketConn.ReadFrom(c2, p2) (n2, a2, e2) in (*obfsPacketConn).ReadFrom
//@   update lastInnerN = n2
//@ hook after call obfuscator.Obfuscate(ob, in, out) (n2) in (*obfsPacketConn).WriteTo
//@   update obfN = n2
//@ hook call PacketConn.WriteTo(c2, b, a) in (*obfsPacketConn).WriteTo
//@   update innerWrites = innerWrites + 1
//@ guard call PacketConn.ReadFrom(c2, p2) in (*obfsPacketConn).ReadFrom
//@   props C13
//@   requires lkHeld && p2 == c.readBuf
//@ guard call obfuscator.Deobfuscate(ob, in, out) in (*obfsPacketConn).ReadFrom
//@   props C13
//@   requires lkHeld && base(in) == base(c.readBuf) && off(in) == off(c.readBuf) && len(in) == lastInnerN && out == p
//@ guard call obfuscator.Obfuscate(ob, in, out) in (*obfsPacketConn).WriteTo
//@   props C13
//@   requires lkHeld && in == p && out == c.writeBuf
//@ guard call PacketConn.WriteTo(c2, b, a) in (*obfsPacketConn).WriteTo
//@   props C13
//@   requires lkHeld && base(b) == base(c.writeBuf) && off(b) == off(c.writeBuf) && len(b) == obfN && a == addr

//@ objinv obfsPacketConn: len(this.readBuf) == 2048 && len(this.writeBuf) == 2048 && this.Conn != nil && this.Obfs != nil

//@ func (*obfsPacketConn).ReadFrom
//@   props C13 C03
//@   requires !lkHeld
//@   ensures !lkHeld && n <= len(p)
//@   ensures isnil(err) && n <= 0 ==> lastInnerN <= 0
//@   modifies any
//@   loop 0
//@     invariant !lkHeld && len(c.readBuf) == 2048 && c.Conn != nil && c.Obfs != nil

//@ func (*obfsPacketConn).WriteTo
//@   props C13 C03
//@   requires !lkHeld
//@   ensures !lkHeld && innerWrites == old(innerWrites) + 1
//@   ensures isnil(err) ==> n == len(p)
//@   ensures !isnil(err) ==> n == 0
//@   modifies any
