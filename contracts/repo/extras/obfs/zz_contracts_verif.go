//go:build verif

// Contracts for the deductive verifier under /verif (comment-only; no declarations).
package obfs

// ---------------------------------------------------------------------------
// Salamander (C13). The wire format is taken from PROTOCOL.md: 8 salt bytes, then
// the payload XORed with BLAKE2b-256(key || salt) repeated. keyId(o) is the content
// identity of the pre-shared key, so two obfuscators "have the same key" exactly
// when their keyIds are equal.

//@ spec func keyId(o) = hseq(row(o.PSK), off(o.PSK), len(o.PSK))
//@ spec func kbyte(o, s, j) = hbyte(cat8(keyId(o), s[0], s[1], s[2], s[3], s[4], s[5], s[6], s[7]), j)

//@ ghost var lkHeld Bool
//@ hook call (*Mutex).Lock(m) in (*salamanderObfuscator).Obfuscate | (*salamanderObfuscator).Deobfuscate | (*obfsPacketConn).ReadFrom | (*obfsPacketConn).WriteTo
//@   update lkHeld = true
//@ hook call (*Mutex).Unlock(m) in (*salamanderObfuscator).Obfuscate | (*salamanderObfuscator).Deobfuscate | (*obfsPacketConn).ReadFrom | (*obfsPacketConn).WriteTo
//@   update lkHeld = false
//@ guard call (*Mutex).Lock(m) in (*salamanderObfuscator).Obfuscate | (*salamanderObfuscator).Deobfuscate | (*obfsPacketConn).ReadFrom | (*obfsPacketConn).WriteTo
//@   requires !lkHeld
//@ guard call (*Mutex).Unlock(m) in (*salamanderObfuscator).Obfuscate | (*salamanderObfuscator).Deobfuscate | (*obfsPacketConn).ReadFrom | (*obfsPacketConn).WriteTo
//@   requires lkHeld
//@ guard call keyLocked(o2, salt) in (*salamanderObfuscator).Obfuscate | (*salamanderObfuscator).Deobfuscate
//@   props C13
//@   requires lkHeld && o2 == o

//@ objinv salamanderObfuscator: len(this.PSK) >= 4 && len(this.keyInput) == len(this.PSK) + 8 && base(this.keyInput) != base(this.PSK) && this.RandSrc != nil
//@ objinv salamanderObfuscator: forall(k, 0, len(this.PSK), this.keyInput[k] == this.PSK[k])

//@ func (*salamanderObfuscator).keyLocked
//@   props C13 C03
//@   requires len(salt) >= 8 && base(salt) != base(o.keyInput) && base(salt) != base(o.PSK)
//@   ensures forall(j, 0, 32, ret[j] == kbyte(o, salt, j) && 0 <= ret[j] && ret[j] <= 255)
//@   modifies o.keyInput[len(o.PSK):len(o.PSK)+8]
//@   use HSEQ_CAT8(row(o.keyInput), off(o.keyInput), len(o.keyInput))

//@ hook after call blake2b.Sum256(d) (h) in (*salamanderObfuscator).keyLocked
//@   use HSEQ_CAT8(row(d), off(d), len(d))
//@   use HSEQ_EXT(row(d), off(d), row(o.PSK), off(o.PSK), len(o.PSK))
//@ guard call blake2b.Sum256(d) in (*salamanderObfuscator).keyLocked
//@   props C13
//@   requires d == o.keyInput

// Obfuscate: 0 and nothing written when out is too small; otherwise out is
// salt(8) ++ (in XOR key stream) and the result is len(in)+8.
//@ func (*salamanderObfuscator).Obfuscate
//@   props C13 C03
//@   requires !lkHeld && base(in) != base(out) && base(in) != base(o.keyInput) && base(out) != base(o.keyInput) && base(out) != base(o.PSK) && base(in) != base(o.PSK)
//@   ensures !lkHeld
//@   ensures len(out) < len(in) + 8 ==> ret == 0 && forall(k, 0, len(out), out[k] == old(out[k]))
//@   ensures len(out) >= len(in) + 8 ==> ret == len(in) + 8 && forall(i, 0, len(in), out[8+i] == xor8(in[i], kbyte(o, out, i % 32)))
//@   ensures forall(k, 0, len(in), in[k] == old(in[k]))
//@   modifies out[0:len(out)], o.keyInput[len(o.PSK):len(o.PSK)+8], lkHeld
//@   loop 0
//@     invariant forall(i, 0, rangeindex + 1, out[8+i] == xor8(in[i], key[i % 32]))
//@     invariant forall(j, 0, 32, key[j] == kbyte(o, out, j))
//@     invariant forall(k, 0, len(in), in[k] == old(in[k])) && !lkHeld

// Deobfuscate: 0 and nothing written for packets without a payload byte or when
// out is too small; otherwise the inverse transform, result len(in)-8.
//@ func (*salamanderObfuscator).Deobfuscate
//@   props C13 C03
//@   requires !lkHeld && base(in) != base(out) && base(in) != base(o.keyInput) && base(out) != base(o.keyInput) && base(out) != base(o.PSK) && base(in) != base(o.PSK)
//@   ensures !lkHeld
//@   ensures len(in) <= 8 || len(out) < len(in) - 8 ==> ret == 0 && forall(k, 0, len(out), out[k] == old(out[k]))
//@   ensures len(in) > 8 && len(out) >= len(in) - 8 ==> ret == len(in) - 8 && forall(i, 0, len(in) - 8, out[i] == xor8(in[8+i], kbyte(o, in, i % 32)))
//@   ensures forall(k, 0, len(in), in[k] == old(in[k]))
//@   modifies out[0:len(out)], o.keyInput[len(o.PSK):len(o.PSK)+8], lkHeld
//@   loop 0
//@     invariant forall(i, 0, rangeindex + 1, out[i] == xor8(in[8+i], key[i % 32]))
//@     invariant forall(j, 0, 32, key[j] == kbyte(o, in, j))
//@     invariant forall(k, 0, len(in), in[k] == old(in[k])) && !lkHeld

// transparency: applying the same key byte twice restores the payload byte
//@ lemma SALAMANDER_RT C13: forall(p, forall(k, 0 <= p && p <= 255 && 0 <= k && k <= 255 ==> xor8(xor8(p, k), k) == p))

//@ func newSalamanderObfuscator
//@   props C13
//@   ensures len(psk) < 4 ==> ret0 == nil && !isnil(ret1)
//@   ensures len(psk) >= 4 ==> ret0 != nil && isnil(ret1) && len(ret0.PSK) == len(psk) && len(ret0.keyInput) == len(psk) + 8 && forall(k, 0, len(psk), ret0.PSK[k] == psk[k] && ret0.keyInput[k] == psk[k])

// ---------------------------------------------------------------------------
// The wrapped socket (C13): junk is skipped, byte counts are those of the
// original packet, the shared buffers are used under their mutexes.

//@ ghost var lastInnerN Int
//@ ghost var obfN Int
//@ ghost var innerWrites Int

//@ iface obfuscator.Obfuscate(ob, in, out) (n)
//@   ensures 0 <= n && n <= len(out)
//@   modifies out[0:len(out)]
//@ iface obfuscator.Deobfuscate(ob, in, out) (n)
//@   ensures 0 <= n && n <= len(out)
//@   modifies out[0:len(out)]

//@ ghost var posReads Int
//@ ghost var deobfCalls Int
//@ ghost var lastDeobfN Int
//@ hook after call PacketConn.ReadFrom(c2, p2) (n2, a2, e2) in (*obfsPacketConn).ReadFrom
//@   update lastInnerN = n2
//@   update posReads = posReads + ite(n2 > 0, 1, 0)
//@ hook after call obfuscator.Deobfuscate(ob, in, out) (n2) in (*obfsPacketConn).ReadFrom
//@   update deobfCalls = deobfCalls + 1
//@   update lastDeobfN = n2
//@ hook after call obfuscator.Obfuscate(ob, in, out) (n2) in (*obfsPacketConn).WriteTo
//@   update obfN = n2
//@ hook call PacketConn.WriteTo(c2, b, a) in (*obfsPacketConn).WriteTo
//@   update innerWrites = innerWrites + 1
//@ guard call PacketConn.ReadFrom(c2, p2) in (*obfsPacketConn).ReadFrom
//@   props C13
//@   requires lkHeld && p2 == c.readBuf
//@ guard call obfuscator.Deobfuscate(ob, in, out) in (*obfsPacketConn).ReadFrom
//@   props C13
//@   requires lkHeld && base(in) == base(c.readBuf) && off(in) == off(c.readBuf) && len(in) == lastInnerN && out == p
//@ guard call obfuscator.Obfuscate(ob, in, out) in (*obfsPacketConn).WriteTo
//@   props C13
//@   requires lkHeld && in == p && out == c.writeBuf
//@ guard call PacketConn.WriteTo(c2, b, a) in (*obfsPacketConn).WriteTo
//@   props C13
//@   requires lkHeld && base(b) == base(c.writeBuf) && off(b) == off(c.writeBuf) && len(b) == obfN && a == addr

//@ objinv obfsPacketConn: len(this.readBuf) == 2048 && len(this.writeBuf) == 2048 && this.Conn != nil && this.Obfs != nil

//@ func (*obfsPacketConn).ReadFrom
//@   props C13 C03
//@   requires !lkHeld
//@   ensures !lkHeld && n <= len(p)
//@   ensures isnil(err) && n <= 0 ==> lastInnerN <= 0
// every datagram the wrapped socket delivered (whatever its length) was handed to the
// deobfuscator, whole; a datagram is skipped only because the deobfuscator rejected it; what is
// returned is the deobfuscator's answer for the last datagram
//@   ensures deobfCalls - old(deobfCalls) == posReads - old(posReads)
//@   ensures lastInnerN > 0 ==> n == lastDeobfN
//@   modifies any
//@   loop 0
//@     invariant !lkHeld && len(c.readBuf) == 2048 && c.Conn != nil && c.Obfs != nil
//@     invariant deobfCalls - old(deobfCalls) == posReads - old(posReads)

//@ func (*obfsPacketConn).WriteTo
//@   props C13 C03
//@   requires !lkHeld
//@   ensures !lkHeld && innerWrites == old(innerWrites) + 1
//@   ensures isnil(err) ==> n == len(p)
//@   ensures !isnil(err) ==> n == 0
//@   modifies any

// ---------------------------------------------------------------------------
// Gecko frames (C14, C03). Header: 0x80, msgID, chunkIdx<<4 | totalChunks,
// padLen (big endian), then padLen padding bytes, then the chunk.

//@ func encodeFrame
//@   props C14 C03
//@   requires disjoint2(out, payload)
//@   ensures isnil(ret1) ==> h.totalChunks >= 2 && h.totalChunks <= 8 && h.chunkIdx < h.totalChunks && len(out) >= 5 + h.padLen + len(payload)
//@   ensures !isnil(ret1) ==> ret0 == 0
//@   ensures isnil(ret1) ==> ret0 == 5 + h.padLen + len(payload) && out[0] == 128 && out[1] == h.msgID && out[2] == h.chunkIdx * 16 + h.totalChunks
//@       && out[3] == h.padLen >> 8 && out[4] == h.padLen % 256 && forall(k, 0, len(payload), out[5 + h.padLen + k] == payload[k])
//@   modifies out[0:len(out)]
//@ spec func disjoint2(a, b) = base(a) != base(b) || off(a) + len(a) <= off(b) || off(b) + len(b) <= off(a)

// decodeFrame: total; accepts exactly frames with the fragment bit, 2..8 chunks, an index below
// the count and the declared padding inside the datagram; the payload is the tail of the input.
//@ spec func frameOK(in) = len(in) >= 5 && in[0] >= 128 && in[2] % 16 >= 2 && in[2] % 16 <= 8 && in[2] / 16 < in[2] % 16 && 5 + in[3] * 256 + in[4] <= len(in)
//@ func decodeFrame
//@   props C14 C03
//@   ensures isnil(ret2) == frameOK(in)
//@   ensures !isnil(ret2) ==> ret1 == nil
//@   ensures isnil(ret2) ==> ret0.msgID == in[1] && ret0.chunkIdx == in[2] / 16 && ret0.totalChunks == in[2] % 16 && ret0.padLen == in[3] * 256 + in[4]
//@       && ret0.totalChunks >= 2 && ret0.totalChunks <= 8 && ret0.chunkIdx < ret0.totalChunks
//@       && base(ret1) == base(in) && off(ret1) == off(in) + 5 + ret0.padLen && len(ret1) == len(in) - 5 - ret0.padLen

// round trip: a frame written by encodeFrame is accepted by decodeFrame with the same header and chunk
//@ lemma FRAME_RT C14: forall(ci, forall(tc, forall(pl, 2 <= tc && tc <= 8 && 0 <= ci && ci < tc && 0 <= pl && pl <= 65535 ==> (ci * 16 + tc) % 16 == tc && (ci * 16 + tc) / 16 == ci && (pl >> 8) * 256 + pl % 256 == pl && pl >> 8 <= 255)))

//@ func randIntn
//@   props C14 C03
//@   requires n <= 4294967295
//@   ensures n <= 1 ==> ret == 0
//@   ensures n > 1 ==> 0 <= ret && ret < n

//@ func randomFragmentChunks
//@   props C14 C03
//@   ensures 2 <= ret && ret <= 8

// randomPadLen: whenever the chunk can fit, salt + header + padding + chunk lies in [minPkt, maxPkt]
//@ objinv geckoPacketConn: 0 < this.minPkt && this.minPkt <= this.maxPkt && this.maxPkt <= 2048 && this.inner != nil && len(this.readBuf) == 2048
//@ func (*geckoPacketConn).randomPadLen
//@   props C14 C03
//@   requires chunkLen >= 0 && chunkLen <= 65535
//@   ensures 13 + chunkLen > g.maxPkt ==> ret == 0
//@   ensures 13 + chunkLen <= g.maxPkt ==> g.minPkt <= 13 + chunkLen + ret && 13 + chunkLen + ret <= g.maxPkt

// ---------------------------------------------------------------------------
// Gecko reassembly (C14, C03). sumR sums a row of chunk lengths; the table is guarded by g.mu.

//@ spec rec func sumR(a, lo, n) = ite(n <= 0, 0, sumR(a, lo, n-1) + a[lo+n-1])
//@ spec rec func cntR(a, lo, n) = ite(n <= 0, 0, cntR(a, lo, n-1) + ite(a[lo+n-1] == 0, 0, 1))
//@ lemma SUMR_NONNEG C14 C03 (a intarray, lo int, n int) induction n: forall(j, a[j] >= 0) ==> sumR(a, lo, n) >= 0
//@ lemma SUMR_UB C14 C03 (a intarray, lo int, n int) induction n: forall(j, 0 <= a[j] && a[j] <= 1099511627776) ==> sumR(a, lo, n) <= n * 1099511627776
//@ lemma SUMR_MONO C14 C03 (a intarray, lo int, i int, n int) induction n: forall(j, a[j] >= 0) && 0 <= i && i <= n ==> sumR(a, lo, i) <= sumR(a, lo, n)
//@ lemma CNTR_BOUND C14 C03 (a intarray, lo int, n int) induction n: 0 <= cntR(a, lo, n) && cntR(a, lo, n) <= n
//@ lemma CNTR_UPD C14 C03 (a intarray, lo int, n int, j int, v int) induction n: lo <= j && a[j] == 0 && v != 0 ==> cntR(upd(a, j, v), lo, n) == cntR(a, lo, n) + ite(j < lo + n, 1, 0)
//@ lemma CNTR_NIL C14 C03 (a intarray, lo int, n int) induction n: forall(i, lo, lo+n, a[i] == 0) ==> cntR(a, lo, n) == 0
//@ lemma CNTR_HOLE C14 C03 (a intarray, lo int, n int, j int) induction n: lo <= j && j < lo + n && a[j] == 0 ==> cntR(a, lo, n) < n

//@ ghost var muHeld Bool
//@ hook call (*Mutex).Lock(m) in (*geckoPacketConn).acceptChunk | (*geckoPacketConn).gcExpired
//@   update muHeld = true
//@ hook call (*Mutex).Unlock(m) in (*geckoPacketConn).acceptChunk | (*geckoPacketConn).gcExpired
//@   update muHeld = false
//@ guard load geckoPacketConn.reassembly(obj)
//@   props C14
//@   requires muHeld
//@ guard load geckoPacketConn.perSource(obj)
//@   props C14
//@   requires muHeld

// census[g][a]: the number of pending messages of source a in g's table, kept by the two
// rules below at every change of the table's key set (a new key enters / a present key
// leaves). CENSUS_POS is the one fact about counting that is assumed rather than derived:
// while a key of source a is present, the count for a is at least 1.
//@ ghost var census (Array Int (Array Str Int))
//@ hook mapinsert geckoPacketConn.reassembly(obj, k)
//@   when !indom(obj.reassembly, k)
//@   update census = upd(census, obj, k.addr, sel(census, obj, k.addr) + 1)
//@ hook mapdelete geckoPacketConn.reassembly(obj, k)
//@   when indom(obj.reassembly, k)
//@   update census = upd(census, obj, k.addr, sel(census, obj, k.addr) - 1)
//@   use CENSUS_POS(obj, k)
//@ axiom CENSUS_POS (g *geckoPacketConn, k reassemblyKey): indom(g.reassembly, k) ==> sel(census, g, k.addr) >= 1

//@ spec func srcCount(g, a) = ite(indom(g.perSource, a), g.perSource[a], 0)

// the table: at most 4096 pending messages; the per-source counters are the census, at most
// 8, and present only while positive
//@ spec func tabCnt(g) = g.reassembly != nil && g.perSource != nil && len(g.reassembly) <= 4096
//@     && forallStr(a, srcCount(g, a) == sel(census, g, a) && srcCount(g, a) <= 8 && (indom(g.perSource, a) ==> g.perSource[a] >= 1))
// every pending entry is incomplete and consistent: a chunk table of its declared size, received =
// number of chunks present < total; different keys have different entries and chunk tables
//@ spec func entryOK(e) = e != nil && len(e.chunks) == e.total
//@     && e.received == cntR(row(e.chunks, "base"), off(e.chunks), len(e.chunks)) && e.received < e.total
//@ spec func tabEnt(g) = forallKey(q, g.reassembly, entryOK(g.reassembly[q])) && tabInj(g)
//@ spec func tabInj(g) = forallKey(q1, g.reassembly, forallKey(q2, g.reassembly, q1 != q2 ==> g.reassembly[q1] != g.reassembly[q2] && base(g.reassembly[q1].chunks) != base(g.reassembly[q2].chunks)))
//@ spec func tabEntBut(g, e) = forallKey(q, g.reassembly, g.reassembly[q] != e ==> entryOK(g.reassembly[q])) && tabInj(g)
//@ spec func tabOK(g) = tabCnt(g) && tabEnt(g)

// proof hints where a chunk table is created / a chunk is stored
//@ hook store reassemblyEntry.chunks(obj, v) in (*geckoPacketConn).acceptChunk
//@   use CNTR_NIL(row(v, "base"), off(v), len(v))
//@ hook elemstore []uint8(s, i, v) in (*geckoPacketConn).acceptChunk
//@   use CNTR_BOUND(row(s, "base"), off(s), len(s))
//@   use CNTR_HOLE(row(s, "base"), off(s), len(s), off(s) + i)
//@   use CNTR_UPD(row(s, "base"), off(s), len(s), off(s) + i, base(v))

// dropEntryLocked: removes exactly that key (if present) and gives its slot back to its source
//@ func (*geckoPacketConn).dropEntryLocked
//@   props C14 C03
//@   nonil
//@   requires muHeld && tabCnt(g)
//@   ensures muHeld && tabCnt(g)
//@   ensures !indom(g.reassembly, k) && len(g.reassembly) == old(len(g.reassembly)) - ite(old(indom(g.reassembly, k)), 1, 0)
//@   ensures forallKey(q, g.reassembly, old(indom(g.reassembly, q)) && g.reassembly[q] == old(g.reassembly[q]))
//@   ensures forallStr(a, srcCount(g, a) <= old(srcCount(g, a)))
//@   modifies mapof(g.reassembly), mapof(g.perSource), census

//@ func (*geckoPacketConn).evictOldestLocked
//@   props C14 C03
//@   nonil
//@   requires muHeld && tabOK(g)
//@   ensures muHeld && tabOK(g)
//@   ensures old(len(g.reassembly)) >= 1 ==> len(g.reassembly) == old(len(g.reassembly)) - 1
//@   ensures forallKey(q, g.reassembly, old(indom(g.reassembly, q)) && g.reassembly[q] == old(g.reassembly[q]))
//@   ensures forallStr(a, srcCount(g, a) <= old(srcCount(g, a)))
//@   modifies mapof(g.reassembly), mapof(g.perSource), census
//@   loop 0
//@     invariant muHeld && tabOK(g) && (first ==> forallKey(q, g.reassembly, !visited(g.reassembly, q))) && (!first ==> indom(g.reassembly, oldestKey))

//@ func (*geckoPacketConn).acceptChunk
//@   props C14 C03
//@   nonil
//@   requires !muHeld && !isnil(addr) && h.totalChunks >= 2 && h.totalChunks <= 8 && h.chunkIdx < h.totalChunks
//@   requires tabOK(g)
//@   ensures !muHeld && tabCnt(g)
//@   ensures forallKey(q, g.reassembly, entryOK(g.reassembly[q]))
//@   ensures tabInj(g)
//@   ensures !ret1 ==> ret0 == nil
//@   ensures ret1 ==> ret0 != nil && fresh(ret0)
//@   ensures ret1 ==> !indom(g.reassembly, mkkey(g.reassembly, pureStr("net.Addr.String", addr), h.msgID))
//@   modifies mapof(g.reassembly), mapof(g.perSource), census, muHeld, region("obfs.reassemblyEntry.received"), region("elem<[]uint8>.base"), region("elem<[]uint8>.off"), region("elem<[]uint8>.len"), region("elem<[]uint8>.cap")
//@   loop 0
//@     invariant muHeld
//@     invariant tabCnt(g)
//@     invariant tabEntBut(g, e)
//@     invariant indom(g.reassembly, key) && g.reassembly[key] == e
//@     invariant len(e.chunks) <= 255
//@     invariant rangeindex + 1 <= len(e.chunks)
//@     invariant total == sumR(row(e.chunks, "len"), off(e.chunks), rangeindex + 1)
//@     invariant total >= 0
//@     use SUMR_NONNEG(row(e.chunks, "len"), off(e.chunks), rangeindex + 2)
//@     use SUMR_UB(row(e.chunks, "len"), off(e.chunks), rangeindex + 2)
//@   loop 1
//@     invariant muHeld
//@     invariant tabCnt(g)
//@     invariant tabEntBut(g, e)
//@     invariant indom(g.reassembly, key) && g.reassembly[key] == e
//@     invariant fresh(out)
//@     invariant len(out) == sumR(row(e.chunks, "len"), off(e.chunks), len(e.chunks))
//@     invariant 0 <= off
//@     invariant off == sumR(row(e.chunks, "len"), off(e.chunks), rangeindex + 1)
//@     use SUMR_MONO(row(e.chunks, "len"), off(e.chunks), rangeindex + 1, len(e.chunks))
//@     use SUMR_MONO(row(e.chunks, "len"), off(e.chunks), rangeindex + 2, len(e.chunks))

// gcExpired: one sweep keeps the table invariant and leaves no entry whose deadline has passed
//@ func (*geckoPacketConn).gcExpired
//@   props C14 C03
//@   nonil
//@   requires !muHeld && tabOK(g)
//@   ensures !muHeld && tabOK(g)
//@   ensures forallKey(q, g.reassembly, !pureBool("(time.Time).After", now, *g.reassembly[q].deadline))
//@   modifies any
//@   loop 0
//@     invariant muHeld
//@     invariant tabOK(g)
//@     invariant forallKey(q, g.reassembly, visited(g.reassembly, q) ==> !pureBool("(time.Time).After", now, *g.reassembly[q].deadline))

// the receive loop: every datagram is either passed through (first bit clear), dropped
// (malformed frame, incomplete message) or completes a message; nothing panics
//@ func (*geckoPacketConn).ReadFrom
//@   props C14 C03
//@   nonil
//@   requires !muHeld && tabOK(g)
//@   ensures !muHeld && tabOK(g) && ret0 <= len(p) && (isnil(ret2) ==> ret0 >= 0)
//@   modifies any
//@   loop 0
//@     invariant !muHeld
//@     invariant tabOK(g)
//@     invariant len(buf) == 2048 && g.inner != nil

// ---------------------------------------------------------------------------
// Gecko send path (C14, C03): a long-header packet is cut into `chunks` consecutive pieces
// (the last one takes the remainder), each sent as one frame with its index; whenever a
// piece can fit, salt + header + padding + piece lies in [minPkt, maxPkt].
//@ ghost var wfChunk Int
//@ ghost var wfPad Int
//@ ghost var wfFrames Int
//@ hook after call (*geckoPacketConn).randomPadLen(g2, cl) (pl) in (*geckoPacketConn).writeFragmented
//@   update wfChunk = cl
//@   update wfPad = pl
//@ hook call PacketConn.WriteTo(c2, b, a) in (*geckoPacketConn).writeFragmented
//@   update wfFrames = wfFrames + 1
//@ guard call encodeFrame(h, payload, out) in (*geckoPacketConn).writeFragmented
//@   props C14
//@   requires h.chunkIdx == i && h.totalChunks == chunks && h.msgID == msgID && h.padLen == wfPad
//@   requires base(payload) == base(p) && off(payload) == off(p) + i * chunkSize && len(payload) == ite(i < chunks - 1, chunkSize, len(p) - i * chunkSize)
//@   requires len(payload) == wfChunk && len(out) == 5 + wfPad + wfChunk
//@ guard call PacketConn.WriteTo(c2, b, a) in (*geckoPacketConn).writeFragmented
//@   props C14
//@   requires a == addr && len(b) == 5 + wfPad + wfChunk && wfFrames == i
//@   requires 13 + wfChunk <= g.maxPkt ==> g.minPkt <= 8 + len(b) && 8 + len(b) <= g.maxPkt
//@ guard call PacketConn.WriteTo(c2, b, a) in (*geckoPacketConn).WriteTo
//@   props C14
//@   requires b == p && a == addr && p[0] < 128

//@ func (*geckoPacketConn).writeFragmented
//@   props C14 C03
//@   nonil
//@   requires len(p) <= 65535 && wfFrames == 0
//@   ensures isnil(ret1) ==> ret0 == len(p) && wfFrames >= 2 && wfFrames <= 8
//@   ensures !isnil(ret1) ==> ret0 == 0
//@   modifies g.msgID, wfChunk, wfPad, wfFrames
//@   loop 0
//@     invariant wfFrames == i && 0 <= i && i <= chunks
//@     invariant len(p) <= 65535 && g.inner != nil && 0 < g.minPkt && g.minPkt <= g.maxPkt && g.maxPkt <= 2048

//@ func (*geckoPacketConn).WriteTo
//@   props C14 C03
//@   nonil
//@   requires len(p) <= 65535 && wfFrames == 0
//@   ensures len(p) == 0 ==> ret0 == 0 && isnil(ret1)
//@   modifies g.msgID, wfChunk, wfPad, wfFrames

// a new connection starts with an empty table (census row all zero) and a validated size range
//@ hook store geckoPacketConn.reassembly(obj, v)
//@   update census = updrow(census, obj, 0)
//@ func newGeckoPacketConn
//@   props C14 C03
//@   requires !isnil(inner) && 0 < minPkt && minPkt <= maxPkt && maxPkt <= 2048
//@   ensures ret != nil && fresh(ret) && tabOK(ret) && len(ret.reassembly) == 0 && ret.minPkt == minPkt && ret.maxPkt == maxPkt
//@   modifies census
//@ func WrapPacketConnGecko
//@   props C14 C03
//@   requires !isnil(conn)
//@   ensures isnil(ret1) ==> !isnil(ret0)
//@   ensures len(opts.Password) == 0 ==> !isnil(ret1)
//@   ensures opts.MinPacketSize < 0 || opts.MaxPacketSize < 0 || opts.MaxPacketSize > 2048 || (opts.MinPacketSize > opts.MaxPacketSize && opts.MaxPacketSize != 0) ==> !isnil(ret1)
//@   modifies census

//@ structural C14: uses geckoPacketConn.reassembly in newGeckoPacketConn | (*geckoPacketConn).acceptChunk | (*geckoPacketConn).gcExpired | (*geckoPacketConn).dropEntryLocked | (*geckoPacketConn).evictOldestLocked
//@ structural C14: uses geckoPacketConn.perSource in newGeckoPacketConn | (*geckoPacketConn).acceptChunk | (*geckoPacketConn).dropEntryLocked
