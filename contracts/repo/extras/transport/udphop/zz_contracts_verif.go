//go:build verif

// Contracts for the deductive verifier under /verif (comment-only; no declarations).
package udphop

// ---------------------------------------------------------------------------
// Port hopping (C19), as a sequential object under connMutex. sockOpen[u][c]: local socket c
// was obtained from ListenUDPFunc by u's hop and has not been closed since. Invariant at every
// method exit: an open socket is the current or the previous one (so at most two are open
// between hops) and none is open once the connection is closed; while it is not closed there
// is a current socket and the target index is inside the address list.

//@ ghost var sockOpen (Array Int (Array Int Bool))
//@ fnfield udpHopPacketConn.ListenUDPFunc(this) (c, err)
//@   ensures isnil(err) ==> !isnil(c) && !selBool(sockOpen, this, payload(c))
// a socket obtained by hop is private to that invocation (hopPriv, hopPrivOpen) until it is
// installed as the current socket; then it enters sockOpen. Every invocation must end with its
// socket installed or closed.
//@ ghost var hopPriv Int
//@ ghost var hopPrivOpen Bool
//@ hook call udpHopPacketConn.ListenUDPFunc(this) in (*udpHopPacketConn).hop
//@   update hopPrivOpen = false
//@ hook after call udpHopPacketConn.ListenUDPFunc(this) (c, err) in (*udpHopPacketConn).hop
//@   when isnil(err)
//@   update hopPriv = payload(c)
//@   update hopPrivOpen = true
//@ hook store udpHopPacketConn.currentConn(obj, v) in (*udpHopPacketConn).hop
//@   when hopPrivOpen && payload(v) == hopPriv
//@   update sockOpen = upd(sockOpen, obj, payload(v), true)
//@   update hopPrivOpen = false
//@ monitor udpHopPacketConn.connMutex: closed, prevConn, currentConn, addrIndex, ghost sockOpen
//@ hook call PacketConn.Close(c) in (*udpHopPacketConn).hop | (*udpHopPacketConn).Close
//@   update sockOpen = upd(sockOpen, u, payload(c), false)
//@   update hopPrivOpen = hopPrivOpen && payload(c) != hopPriv
//@ iface net.PacketConn.Close(c) (err)
//@ iface net.PacketConn.SetDeadline(c, t) (err)
//@ iface net.PacketConn.SetReadDeadline(c, t) (err)
//@ iface net.PacketConn.SetWriteDeadline(c, t) (err)
//@ iface net.PacketConn.LocalAddr(c) (a)

//@ spec func hopInv(u) = forall(c, selBool(sockOpen, u, c) ==> !u.closed && ((!isnil(u.currentConn) && c == payload(u.currentConn)) || (!isnil(u.prevConn) && c == payload(u.prevConn))))
//@ objinv udpHopPacketConn: hopInv(this) && (!this.closed ==> !isnil(this.currentConn) && 0 <= this.addrIndex && this.addrIndex < len(this.Addrs))
// ... and, the other way round, while the connection is open its current socket is open, and
// so is the previous one (replies to it are still delivered until the next hop), which is a
// different socket
//@ objinv udpHopPacketConn: !this.closed ==> selBool(sockOpen, this, payload(this.currentConn))
//@ objinv udpHopPacketConn: !this.closed && !isnil(this.prevConn) ==> selBool(sockOpen, this, payload(this.prevConn)) && payload(this.prevConn) != payload(this.currentConn)

//@ func (*udpHopPacketConn).hop
//@   props C19
//@   nonil
//@   requires u.ListenUDPFunc != nil
//@   ensures hopPrivOpen ==> old(hopPrivOpen)
//@   modifies any

// every packet goes out on the newest local socket, to one of the addresses of the port set
//@ guard call PacketConn.WriteTo(c, p, a) in (*udpHopPacketConn).WriteTo
//@   props C19
//@   requires !u.closed && c == u.currentConn && exists(i, 0, len(u.Addrs), a == u.Addrs[i]) && p == b
//@ func (*udpHopPacketConn).WriteTo
//@   props C19
//@   nonil
//@   ensures u.closed ==> ret0 == 0 && !isnil(ret1)
//@   modifies any

//@ func (*udpHopPacketConn).Close
//@   props C19
//@   nonil
//@   ensures u.closed && forall(c, !selBool(sockOpen, u, c))
//@   modifies any

// one target address per port of the expression, all with the server's IP
//@ func (*UDPHopAddr).addrs
//@   props C19
//@   nonil
//@   ensures isnil(ret1) && len(ret0) == len(a.Ports)
//@   ensures forall(i, 0, len(ret0), tagof(ret0[i]) == typetag("*net.UDPAddr") && ptrof(ret0[i], "*net.UDPAddr").Port == a.Ports[i] && ptrof(ret0[i], "*net.UDPAddr").IP == a.IP)
//@   loop 0
//@     invariant len(addrs) == rangeindex + 1 && rangeindex + 1 <= len(a.Ports)
//@     invariant forall(i, 0, len(addrs), allocated(ptrof(addrs[i], "*net.UDPAddr")))
//@     invariant forall(i, 0, len(addrs), tagof(addrs[i]) == typetag("*net.UDPAddr") && ptrof(addrs[i], "*net.UDPAddr").Port == a.Ports[i] && ptrof(addrs[i], "*net.UDPAddr").IP == a.IP)
