//go:build verif

// Contracts for the deductive verifier under /verif (comment-only; no declarations).
package outbounds

// ---------------------------------------------------------------------------
// The ACL engine (C09): one lookup per request, for the request's own host, resolved
// addresses, protocol and port; the rule set's outbound when it has one, the default
// outbound when it has none.
//@ ghost var aclLookups Int
//@ ghost var aclObTag Int
//@ ghost var aclObRef Int
//@ ghost var aclHijNil Bool
//@ iface acl.CompiledRuleSet.Match(rs, h, pr, po) (ob, hij)
//@ hook after call acl.CompiledRuleSet.Match(rs, h, pr, po) (ob, hij) in (*aclEngine).handle
//@   update aclLookups = aclLookups + 1
//@   update aclObTag = tagof(ob)
//@   update aclObRef = payload(ob)
//@   update aclHijNil = hij == nil
//@ guard call acl.CompiledRuleSet.Match(rs, h, pr, po) in (*aclEngine).handle
//@   props C09
//@   requires rs == a.RuleSet && pr == proto && po == reqAddr.Port && h.Name == reqAddr.Host
//@   requires reqAddr.ResolveInfo != nil ==> h.IPv4 == reqAddr.ResolveInfo.IPv4 && h.IPv6 == reqAddr.ResolveInfo.IPv6
//@   requires reqAddr.ResolveInfo == nil ==> h.IPv4 == nil && h.IPv6 == nil
//@ func (*aclEngine).handle
//@   props C09
//@   nonil
//@   requires reqAddr != nil
//@   ensures aclLookups == old(aclLookups) + 1
//@   ensures aclObTag == 0 ==> ret == a.Default
//@   ensures aclObTag != 0 ==> tagof(ret) == aclObTag && payload(ret) == aclObRef
//@   ensures aclObTag == 0 || aclHijNil ==> reqAddr.Host == old(reqAddr.Host) && reqAddr.ResolveInfo == old(reqAddr.ResolveInfo)
//@   modifies reqAddr.Host, reqAddr.ResolveInfo, ghosts

// the three entry points look the request up under their own protocol (TCP = 1, UDP = 2) and
// hand it to the outbound that lookup chose
//@ spec func chosen(a, ob) = (aclObTag == 0 && ob == a.Default) || (aclObTag != 0 && tagof(ob) == aclObTag && payload(ob) == aclObRef)
//@ guard call (*aclEngine).handle(e, r, pr) in (*aclEngine).TCP
//@   props C09
//@   requires e == a && r == reqAddr && pr == 1
//@ guard call (*aclEngine).handle(e, r, pr) in (*aclEngine).UDP | (*aclEngine).CheckUDP
//@   props C09
//@   requires e == a && r == reqAddr && pr == 2
//@ guard call PluggableOutbound.TCP(ob, r) in (*aclEngine).TCP
//@   props C09
//@   requires r == reqAddr && aclLookups == old(aclLookups) + 1 && chosen(a, ob)
//@ guard call PluggableOutbound.UDP(ob, r) in (*aclEngine).UDP
//@   props C09
//@   requires r == reqAddr && aclLookups == old(aclLookups) + 1 && chosen(a, ob)
//@ guard call PluggableOutbound.CheckUDP(ob, r) in (*aclEngine).CheckUDP
//@   props C09
//@   requires r == reqAddr && aclLookups == old(aclLookups) + 1 && chosen(a, ob)
//@ func (*aclEngine).TCP
//@   props C09
//@   nonil
//@   requires reqAddr != nil
//@   modifies any
//@ func (*aclEngine).UDP
//@   props C09
//@   nonil
//@   requires reqAddr != nil
//@   modifies any
//@ func (*aclEngine).CheckUDP
//@   props C09
//@   nonil
//@   requires reqAddr != nil
//@   modifies any
