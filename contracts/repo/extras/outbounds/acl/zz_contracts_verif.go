//go:build verif

// Contracts for the deductive verifier under /verif (comment-only; no declarations).
package acl

// ---------------------------------------------------------------------------
// First match and cache transparency (C09), for the compiled rule set.
// A host matcher's verdict is modelled as a function hm of the matcher and of the host's
// textual form name|v4|v6 (HostInfo.String) - the same text the cache key is built from.
//@ uf hm(Int, Int, Str) Bool
//@ func (HostInfo).String
//@   props C09
//@   trusted
//@   pure
//@ iface hostMatcher.Match(m, host) (ok)
//@   ensures ok == hm(tagof(m), payload(m), pureStr("(acl.HostInfo).String", host))

// rule r applies to (host text hk, protocol pr, port po)
//@ spec func applies(r, hk, pr, po) = (r.Protocol == 0 || r.Protocol == pr) && (r.StartPort == 0 || (r.StartPort <= po && po <= r.EndPort)) && hm(tagof(r.HostMatcher), payload(r.HostMatcher), hk)

//@ func (*compiledRule).Match
//@   props C09
//@   nonil
//@   ensures ret == applies(r, pureStr("(acl.HostInfo).String", host), proto, port)

// res(s, hk, pr, po, t, p, b, o, l): (t,p) / (b,o,l) is the answer the rule list gives for that
// query: the outbound and hijack address of the first rule in list order that applies, or the
// zero outbound and a nil address when none does.
//@ spec func firstAt(s, i, hk, pr, po) = 0 <= i && i < len(s.Rules) && applies(s.Rules[i], hk, pr, po) && forall(j, 0, i, !applies(s.Rules[j], hk, pr, po))
//@ spec func res(s, hk, pr, po, t, p, b, o, l) = forall(i, 0, len(s.Rules), firstAt(s, i, hk, pr, po) ==> t == tagof(s.Rules[i].Outbound) && p == payload(s.Rules[i].Outbound) && b == base(s.Rules[i].HijackAddress) && o == off(s.Rules[i].HijackAddress) && l == len(s.Rules[i].HijackAddress))
//@     && (forall(j, 0, len(s.Rules), !applies(s.Rules[j], hk, pr, po)) ==> t == 0 && p == 0 && b == 0 && l == 0)
// (stated without an existential: if some rule applies there is a unique first one, and the
// answer is that rule's; if none applies the answer is the zero outbound and a nil address)

// The cache. Whatever is put into it is the list's answer for its key (guard at the only two
// Add calls); the rule list never changes after compilation (structural facts below); so
// whatever Get returns for a key is the list's answer for that key: CACHE_SOUND is that
// conclusion, assumed at the Get call (the induction over the cache's history is not done by
// the verifier).
//@ ghost var qKey Str
//@ hook after call (HostInfo).String(h2) (r) in (*compiledRuleSetImpl).Match
//@   update qKey = r
//@ guard call (*v2.Cache).Add(c, k, v) in (*compiledRuleSetImpl).Match
//@   props C09
//@   requires c == s.Cache && k.Host == qKey && k.Proto == proto && k.Port == port
//@   requires res(s, qKey, proto, port, tagof(v.Outbound), payload(v.Outbound), base(v.HijackAddress), off(v.HijackAddress), len(v.HijackAddress))
//@ axiom CACHE_SOUND (s *compiledRuleSetImpl, hk string, pr int, po int, ok bool, t int, p int, b int, o int, l int): ok ==> res(s, hk, pr, po, t, p, b, o, l)
//@ hook after call (*v2.Cache).Get(c, k) (v, ok) in (*compiledRuleSetImpl).Match
//@   use CACHE_SOUND(s, qKey, proto, port, ok, tagof(v.Outbound), payload(v.Outbound), base(v.HijackAddress), off(v.HijackAddress), len(v.HijackAddress))
//@ guard call (*v2.Cache).Get(c, k) in (*compiledRuleSetImpl).Match
//@   props C09
//@   requires c == s.Cache && k.Host == qKey && k.Proto == proto && k.Port == port
//@ extern func (*v2.Cache).Get(c, k) (v, ok)
//@ extern func (*v2.Cache).Add(c, k, v) (evicted)

// Match returns the list's answer for the normalised query, whether or not it was cached
//@ func (*compiledRuleSetImpl).Match
//@   props C09
//@   nonil
//@   ensures forall(i, 0, len(s.Rules), firstAt(s, i, qKey, proto, port) ==> tagof(ret0) == tagof(s.Rules[i].Outbound) && payload(ret0) == payload(s.Rules[i].Outbound) && base(ret1) == base(s.Rules[i].HijackAddress) && off(ret1) == off(s.Rules[i].HijackAddress) && len(ret1) == len(s.Rules[i].HijackAddress))
//@   ensures forall(j, 0, len(s.Rules), !applies(s.Rules[j], qKey, proto, port)) ==> isnil(ret0) && ret1 == nil
//@   modifies qKey
//@   loop 0
//@     invariant forall(j, 0, rangeindex + 1, !applies(s.Rules[j], qKey, proto, port))
//@     invariant rangeindex + 1 <= len(s.Rules)

//@ structural C09: stores compiledRuleSetImpl.Rules in Compile
//@ structural C09: stores compiledRuleSetImpl.Cache in Compile
//@ structural C09: calls (*v2.Cache).Add in (*compiledRuleSetImpl).Match

// ---------------------------------------------------------------------------
// The address patterns (C09): what each matcher answers, stated from the ACL documentation.
// exact: the (IDNA-decoded) name equals the pattern; suffix: the name is the pattern or ends
// in "." + pattern (a label boundary); IP: the pattern equals the resolved IPv4 or IPv6
// address; CIDR: the network contains either; all: everything. The wildcard matcher
// (deepMatchRune, recursive over rune slices) is not under contract.
//@ ghost var dmName Str
//@ hook after call idna.ToUnicode(s0) (r, err) in (*domainMatcher).Match
//@   update dmName = ite(isnil(err), r, s0)
//@ guard call idna.ToUnicode(s0) in (*domainMatcher).Match
//@   props C09
//@   requires s0 == host.Name
// the wildcard matcher: '*' (42) stands for any sequence of runes, the empty one included; every
// other rune of the pattern stands for itself; the whole name has to be consumed
//@ spec rec func wild(s, slo, sn, p, plo, pn) = ite(pn <= 0, ite(sn <= 0, 1, 0), ite(p[plo] == 42, ite(wild(s, slo, sn, p, plo + 1, pn - 1) == 1 || (sn > 0 && wild(s, slo + 1, sn - 1, p, plo, pn) == 1), 1, 0), ite(sn > 0 && s[slo] == p[plo] && wild(s, slo + 1, sn - 1, p, plo + 1, pn - 1) == 1, 1, 0)))
//@ func deepMatchRune
//@   props C09 C03
//@   ensures ret == (wild(row(str), off(str), len(str), row(pattern), off(pattern), len(pattern)) == 1)
//@   loop 0
//@     invariant wild(row(str), off(str), len(str), row(pattern), off(pattern), len(pattern)) == old(wild(row(str), off(str), len(str), row(pattern), off(pattern), len(pattern)))
//@ func (*domainMatcher).Match
//@   props C09
//@   nonil
//@   ensures m.Mode == 0 ==> ret == (dmName == m.Pattern)
//@   ensures m.Mode == 2 ==> ret == (dmName == m.Pattern || pureBool("strings.HasSuffix", dmName, strcat(".", m.Pattern)))
//@   ensures m.Mode > 2 ==> !ret
//@   modifies dmName
//@ func (*ipMatcher).Match
//@   props C09
//@   nonil
//@   ensures ret == (pureBool("(net.IP).Equal", m.IP, host.IPv4) || pureBool("(net.IP).Equal", m.IP, host.IPv6))
//@ func (*cidrMatcher).Match
//@   props C09
//@   nonil
//@   ensures ret == (pureBool("(*net.IPNet).Contains", m.IPNet, host.IPv4) || pureBool("(*net.IPNet).Contains", m.IPNet, host.IPv6))
//@ func (*allMatcher).Match
//@   props C09
//@   ensures ret

// the protocol/port part of a rule: panic-free, and an accepted range is never inverted
//@ func parseProtoPort
//@   props C09
//@   ensures ret3 ==> ret1 <= ret2 && (ret0 == 0 || ret0 == 1 || ret0 == 2)
//@   ensures !ret3 ==> ret0 == 0 && ret1 == 0 && ret2 == 0
