//go:build verif

// Contracts for the deductive verifier under /verif (comment-only; no declarations).
package speedtest

// ---------------------------------------------------------------------------
// The built-in speed-test endpoint (C03): requests and replies are peer-controlled byte
// streams; every declared length (uint32 payload sizes, uint16 message lengths) is used
// only to bound a loop or size a buffer of at most 65535 bytes, and nothing panics.

//@ func server
//@   props C03
//@   requires !isnil(conn)
//@   modifies any
//@ func handleDownload
//@   props C03
//@   requires !isnil(conn)
//@   modifies any
//@ func handleUpload
//@   props C03
//@   requires !isnil(conn)
//@   modifies any
//@ func readDownloadRequest
//@   props C03
//@   requires !isnil(r)
//@   modifies any
//@ func readUploadRequest
//@   props C03
//@   requires !isnil(r)
//@   modifies any
//@ func readDownloadResponse
//@   props C03
//@   requires !isnil(r)
//@   modifies any
//@ func readUploadResponse
//@   props C03
//@   requires !isnil(r)
//@   modifies any
//@ func readUploadSummary
//@   props C03
//@   requires !isnil(r)
//@   modifies any
//@ func writeDownloadResponse
//@   props C03
//@   requires !isnil(w)
//@   modifies any
//@ func writeUploadResponse
//@   props C03
//@   requires !isnil(w)
//@   modifies any
//@ func writeDownloadRequest
//@   props C03
//@   requires !isnil(w)
//@   modifies any
//@ func writeUploadRequest
//@   props C03
//@   requires !isnil(w)
//@   modifies any
//@ func writeUploadSummary
//@   props C03
//@   requires !isnil(w)
//@   modifies any
