//go:build verif

// Contracts for the deductive verifier under /verif (comment-only; no declarations).
package trafficlogger

// ---------------------------------------------------------------------------
// Monitor discipline for trafficStatsServerImpl.Mutex: ghost lock state driven
// by the Lock/Unlock call sites; every access to the guarded maps and counters
// is reachable only with the lock held (write lock for writes).

//@ ghost var wlock Bool
//@ ghost var rlock Bool
//@ ghost var epoch Int
//@ ghost var snapEpoch Int
//@ ghost var snapRef Int

//@ hook call (*RWMutex).Lock(m)
//@   update wlock = true
//@   update epoch = epoch + 1
//@ hook call (*RWMutex).Unlock(m)
//@   update wlock = false
//@ hook call (*RWMutex).RLock(m)
//@   update rlock = true
//@   update epoch = epoch + 1
//@ hook call (*RWMutex).RUnlock(m)
//@   update rlock = false
//@ guard call (*RWMutex).Lock(m)
//@   requires !wlock && !rlock
//@ guard call (*RWMutex).RLock(m)
//@   requires !wlock && !rlock
//@ guard call (*RWMutex).Unlock(m)
//@   requires wlock
//@ guard call (*RWMutex).RUnlock(m)
//@   requires rlock

//@ guard load trafficStatsServerImpl.StatsMap(obj)
//@   requires wlock || rlock
//@ guard load trafficStatsServerImpl.OnlineMap(obj)
//@   requires wlock || rlock
//@ guard load trafficStatsServerImpl.KickMap(obj)
//@   requires wlock || rlock
//@ guard load trafficStatsServerImpl.StreamMap(obj)
//@   requires wlock || rlock
//@ guard store trafficStatsServerImpl.StatsMap(obj, v)
//@   requires wlock && epoch == snapEpoch && snapRef == old(payload(s.StatsMap)) && fresh(v) && len(v) == 0
//@ guard mapwrite trafficStatsServerImpl.StatsMap(obj, k)
//@   requires wlock
//@ guard mapwrite trafficStatsServerImpl.OnlineMap(obj, k)
//@   requires wlock
//@ guard mapwrite trafficStatsServerImpl.KickMap(obj, k)
//@   requires wlock
//@ guard mapwrite trafficStatsServerImpl.StreamMap(obj, k)
//@   requires wlock
//@ guard store trafficStatsEntry.Tx(obj, v)
//@   requires wlock
//@ guard store trafficStatsEntry.Rx(obj, v)
//@   requires wlock

// the snapshot handed to the caller is the live map, encoded inside the critical section
//@ hook call json.Marshal(v) in (*trafficStatsServerImpl).getTraffic
//@   update snapEpoch = epoch
//@   update snapRef = payload(v)
//@ guard call json.Marshal(v) in (*trafficStatsServerImpl).getTraffic
//@   requires (wlock || rlock) && payload(v) == payload(s.StatsMap)
//@ guard call json.Marshal(v) in (*trafficStatsServerImpl).getOnline
//@   requires (wlock || rlock) && payload(v) == payload(s.OnlineMap)

//@ spec func txOf(s, id) = ite(indom(s.StatsMap, id), s.StatsMap[id].Tx, 0)
//@ spec func rxOf(s, id) = ite(indom(s.StatsMap, id), s.StatsMap[id].Rx, 0)
//@ spec func onlineOf(s, id) = ite(indom(s.OnlineMap, id), s.OnlineMap[id], 0)

// distinct users have distinct counter cells, and no entry is nil
//@ objinv trafficStatsServerImpl: forallStr(k1, forallStr(k2, indom(this.StatsMap, k1) && indom(this.StatsMap, k2) && k1 != k2 ==> this.StatsMap[k1] != this.StatsMap[k2]))
//@ objinv trafficStatsServerImpl: forallStr(k, indom(this.StatsMap, k) ==> this.StatsMap[k] != nil)
//@ objinv trafficStatsServerImpl: forallStr(k, indom(this.OnlineMap, k) ==> this.OnlineMap[k] >= 1)
//@ objinv trafficStatsServerImpl: this.StatsMap != nil && this.OnlineMap != nil && this.KickMap != nil

// LogTraffic: a kicked user's report is refused exactly once and counts nothing;
// otherwise exactly (tx, rx) is added to that user's counters and nobody else's.
//@ func (*trafficStatsServerImpl).LogTraffic
//@   props C15
//@   requires !wlock && !rlock
//@   requires txOf(s, id) + tx <= 18446744073709551615 && rxOf(s, id) + rx <= 18446744073709551615
//@   ensures !wlock && !rlock
//@   ensures old(indom(s.KickMap, id)) ==> !ok && !indom(s.KickMap, id) && txOf(s, id) == old(txOf(s, id)) && rxOf(s, id) == old(rxOf(s, id))
//@   ensures !old(indom(s.KickMap, id)) ==> ok && txOf(s, id) == old(txOf(s, id)) + tx && rxOf(s, id) == old(rxOf(s, id)) + rx
//@   ensures forallStr(k, k != id ==> txOf(s, k) == old(txOf(s, k)) && rxOf(s, k) == old(rxOf(s, k)) && indom(s.KickMap, k) == old(indom(s.KickMap, k)))
//@   ensures forallStr(k, onlineOf(s, k) == old(onlineOf(s, k)))
//@   modifies any

// LogOnlineState: +1 on connect; -1 on disconnect, never below zero, entry dropped at zero.
//@ func (*trafficStatsServerImpl).LogOnlineState
//@   props C15
//@   requires !wlock && !rlock
//@   requires onlineOf(s, id) < 4611686018427387904
//@   ensures !wlock && !rlock
//@   ensures online ==> onlineOf(s, id) == old(onlineOf(s, id)) + 1
//@   ensures !online ==> onlineOf(s, id) == max(old(onlineOf(s, id)) - 1, 0)
//@   ensures forallStr(k, k != id ==> onlineOf(s, k) == old(onlineOf(s, k)))
//@   ensures forallStr(k, txOf(s, k) == old(txOf(s, k)) && rxOf(s, k) == old(rxOf(s, k)))
// a pending kick is consumed only by the traffic report it refuses: connects and disconnects leave the kick list alone
//@   ensures forallStr(k, indom(s.KickMap, k) == old(indom(s.KickMap, k)))
//@   modifies any

// getTraffic: the encoded snapshot is the live map; with clear it is replaced by a
// fresh empty map in the same critical section (guards above), so every counted
// byte is in exactly one snapshot.
//@ func (*trafficStatsServerImpl).getTraffic
//@   props C15
//@   nonil
//@   requires !wlock && !rlock
//@   ensures !wlock && !rlock
//@   ensures payload(s.StatsMap) == old(payload(s.StatsMap)) || (fresh(s.StatsMap) && len(s.StatsMap) == 0 && snapRef == old(payload(s.StatsMap)))
//@   ensures forallStr(k, onlineOf(s, k) == old(onlineOf(s, k)) && indom(s.KickMap, k) == old(indom(s.KickMap, k)))
//@   modifies any

//@ func (*trafficStatsServerImpl).getOnline
//@   props C15
//@   nonil
//@   requires !wlock && !rlock
//@   ensures !wlock && !rlock
//@   ensures forallStr(k, onlineOf(s, k) == old(onlineOf(s, k)) && txOf(s, k) == old(txOf(s, k)) && rxOf(s, k) == old(rxOf(s, k)) && indom(s.KickMap, k) == old(indom(s.KickMap, k)))
//@   modifies any

// POST /kick: the 200 answer means every listed id is on the kick list (whatever else the
// logger knows about that id: the statistics map is emptied by a clearing poll and is not the
// set of connected users); nothing but the kick list changes.
//@ guard call ResponseWriter.WriteHeader(w2, code) in (*trafficStatsServerImpl).kick
//@   props C15
//@   requires code == 200 && forall(j, 0, len(ids), indom(s.KickMap, ids[j]))
//@ func (*trafficStatsServerImpl).kick
//@   props C15
//@   nonil
//@   requires s.KickMap != nil && r != nil && !isnil(w) && !wlock && !rlock
//@   ensures !wlock && !rlock
//@   modifies any
//@   loop 0
//@     invariant wlock && !rlock
//@     invariant forall(j, 0, rangeindex + 1, indom(s.KickMap, ids[j]))
