//go:build verif

// Contracts for the deductive verifier under /verif (comment-only; no declarations).
package sniff

// ---------------------------------------------------------------------------
// The sniffer (C03): whatever the first bytes of a proxied flow are, the TCP and UDP hooks
// return without panicking. The third-party parsers they hand bytes to (net/http's request
// reader, utls.UnmarshalClientHello) have no contract: that they do not panic is assumed
// and listed in the evidence.

//@ func (*Sniffer).isHTTP
//@   props C03 C17
//@   nilrecv
//@   ensures ret ==> len(buf) >= 3
//@   loop 0
//@     invariant len(buf) >= 3

//@ func (*Sniffer).isTLS
//@   props C03 C17
//@   nilrecv
//@   ensures ret ==> len(buf) >= 3

//@ func (*teeReader).Read
//@   props C03 C17
//@   nonil
//@   ensures 0 <= n && n <= len(b)
//@   modifies b[0:len(b)], c.Pre, c.buf, region("elem<uint8>")

//@ func (*teeReader).Buffer
//@   props C03 C17
//@   nonil

//@ func (*Sniffer).TCP
//@   props C03
//@   nonil
//@   requires !isnil(stream) && reqAddr != nil
//@   modifies any

//@ func (*Sniffer).UDP
//@   props C03
//@   nonil
//@   requires reqAddr != nil
//@   modifies any
