//go:build verif

// Contracts for the deductive verifier under /verif (comment-only; no declarations).
package sniff

// ---------------------------------------------------------------------------
// The sniffer (C03): whatever the first bytes of a proxied flow are, the TCP and UDP hooks
// return without panicking. The third-party parsers they hand bytes to (net/http's request
// reader, utls.UnmarshalClientHello) have no contract: that they do not panic is assumed
// and listed in the evidence.

//@ func (*Sniffer).isHTTP
//@   props C03 C17
//@   nilrecv
//@   ensures ret ==> len(buf) >= 3
//@   loop 0
//@     invariant len(buf) >= 3

//@ func (*Sniffer).isTLS
//@   props C03 C17
//@   nilrecv
//@   ensures ret ==> len(buf) >= 3

// teeReader mirrors every byte it hands out into buf, in order: first the three bytes already
// read (Pre), then what it reads from the stream
//@ func (*teeReader).Read
//@   props C03 C17
//@   nonil
//@   requires !isnil(c.Stream) && base(b) != base(c.Pre) && base(b) != base(c.buf)
//@   ensures 0 <= n && n <= len(b)
//@   ensures len(c.buf) == old(len(c.buf)) + n && forall(i, 0, old(len(c.buf)), c.buf[i] == old(c.buf[i])) && forall(i, 0, n, c.buf[old(len(c.buf)) + i] == b[i])
//@   ensures old(len(c.Pre)) > 0 ==> n == min(len(b), old(len(c.Pre))) && isnil(err) && forall(i, 0, n, b[i] == old(c.Pre[i])) && len(c.Pre) == old(len(c.Pre)) - n && sel(rpos, src(payload(c.Stream))) == old(sel(rpos, src(payload(c.Stream))))
//@   ensures old(len(c.Pre)) == 0 ==> sel(rpos, src(payload(c.Stream))) == old(sel(rpos, src(payload(c.Stream)))) + n && forall(i, 0, n, b[i] == sel(rdata, src(payload(c.Stream)), old(sel(rpos, src(payload(c.Stream)))) + i))
//@   modifies b[0:len(b)], c.Pre, c.buf, rpos

//@ func (*teeReader).Buffer
//@   props C03 C17
//@   nonil
//@   ensures len(ret) == len(c.Pre) + len(c.buf) && forall(i, 0, len(c.Pre), ret[i] == c.Pre[i]) && forall(i, 0, len(c.buf), ret[len(c.Pre) + i] == c.buf[i])

// TCP: on every path that does not go through net/http's request reader, the bytes handed back
// for replay are exactly the bytes consumed from the stream, in order, and nothing else was
// consumed; the destination changes only to JoinHostPort(name found, port of the old destination)
//@ ghost var tcpHTTP Bool
//@ hook call http.ReadRequest(b) in (*Sniffer).TCP
//@   update tcpHTTP = true
//@ hook after call net.SplitHostPort(a) (h, p, e) in (*Sniffer).TCP
//@   update udpSplitArg = a
//@   update udpSplitPort = p
//@ hook after call net.JoinHostPort(h, p) (r) in (*Sniffer).TCP
//@   update udpJoinPort = p
//@   update udpJoined = r
//@   update udpJoinHost = h
//@ func (*Sniffer).TCP
//@   props C03 C17
//@   nonil
//@   requires !isnil(stream) && reqAddr != nil && !tcpHTTP
//@   ensures !tcpHTTP && isnil(ret1) ==> sel(rpos, src(payload(stream))) == old(sel(rpos, src(payload(stream)))) + len(ret0)
// (content is stated for the replies of at most three bytes - short reads and unrecognised
// protocols; for the longer TLS replies, built by two appends, the solvers do not finish the
// content proof, and only the byte count above is proved)
//@   ensures !tcpHTTP && isnil(ret1) && len(ret0) <= 3 ==> forall(i, 0, len(ret0), ret0[i] == sel(rdata, src(payload(stream)), old(sel(rpos, src(payload(stream)))) + i))
//@   ensures !tcpHTTP ==> *reqAddr == old(*reqAddr) || (udpSplitArg == old(*reqAddr) && *reqAddr == udpJoined && udpJoinPort == udpSplitPort && udpJoinHost != "")
//@   modifies any

//@ func (*Sniffer).UDP
//@   props C03 C17
//@   nonil
//@   requires reqAddr != nil
//@   ensures forall(i, 0, len(data), data[i] == old(data[i]))
//@   ensures *reqAddr == old(*reqAddr) || (udpSplitArg == old(*reqAddr) && *reqAddr == udpJoined && udpJoinPort == udpSplitPort && udpJoinHost != "")
//@   modifies *reqAddr, rpos, rlen, rdata, rbase, roff, udpSplitArg, udpSplitPort, udpJoinPort, udpJoined, udpJoinHost

// ---------------------------------------------------------------------------
// Transparency (C17). UDP: the hook is handed the slice the server forwards next and must not
// write to it; the destination changes only to JoinHostPort(server name, port of the original
// destination). TCP: see below.
//@ ghost var udpSplitArg Str
//@ ghost var udpSplitPort Str
//@ ghost var udpJoinPort Str
//@ ghost var udpJoined Str
//@ ghost var udpJoinHost Str
//@ hook after call net.SplitHostPort(a) (h, p, e) in (*Sniffer).UDP
//@   update udpSplitArg = a
//@   update udpSplitPort = p
//@ hook after call net.JoinHostPort(h, p) (r) in (*Sniffer).UDP
//@   update udpJoinPort = p
//@   update udpJoined = r
//@   update udpJoinHost = h
