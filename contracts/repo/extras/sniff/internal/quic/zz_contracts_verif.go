//go:build verif

// Contracts for the deductive verifier under /verif (comment-only; no declarations).
package quic

// C03: every function below is total on arbitrary datagram bytes (no panic);
// C17: none of them writes to the packet it is given.

//@ func isLongHeader
//@   props C03
//@ func getSalt
//@   props C03

//@ func beUint32
//@   props C03
//@   ensures spos(r) >= old(spos(r)) && spos(r) <= slenOf(r) && (isnil(ret1) ==> spos(r) == old(spos(r)) + 4)
//@   ensures forall(s, s != src(payload(r)) ==> sel(rpos, s) == old(sel(rpos, s)))
//@   modifies rpos

//@ func readConnectionID
//@   props C03
//@   ensures spos(r) >= old(spos(r)) && spos(r) <= slenOf(r)
//@   ensures forall(s, s != src(payload(r)) ==> sel(rpos, s) == old(sel(rpos, s)))
//@   modifies rpos, cid[0:len(cid)]

//@ func parseLongHeader
//@   props C03
//@   requires b != nil && src(b) == b && reliable(b)
//@   ensures isnil(ret1) ==> ret0 != nil && fresh(ret0)
//@   ensures isnil(ret1) ==> ret0.Length >= 0
//@   ensures isnil(ret1) ==> ret0.Length <= 4611686018427387903
//@   ensures sel(rpos, b) >= old(sel(rpos, b))
//@   ensures sel(rpos, b) <= sel(rlen, b)
//@   modifies rpos

//@ func ParseInitialHeader
//@   props C03
//@   ensures isnil(ret2) ==> ret0 != nil && ret1 >= 0 && ret1 <= len(data) && ret0.Length >= 0 && ret0.Length <= 4611686018427387903
//@   modifies rpos, rlen, rdata, rbase, roff

// key derivation: HKDF / AES / ChaCha set-up from fixed-size secrets; their explicit
// panics guard library failures that cannot depend on the datagram (trusted)
//@ func hkdfExpandLabel
//@   props C03
//@   trusted
//@   requires length >= 0
//@   ensures len(ret) == length && fresh(ret)
//@ func NewInitialProtectionKey
//@   props C03
//@   trusted
//@   ensures isnil(ret1) ==> ret0 != nil && len(ret0.iv) >= 8 && ret0.aead != nil && ret0.headerProtection != nil
//@ func NewPacketProtector
//@   props C03
//@   ensures ret != nil && ret.key == key

//@ func decodePacketNumber
//@   props C03

//@ fnfield ProtectionKey.headerProtection(this, sample) (mask)
//@   requires len(sample) >= 16
//@   ensures len(mask) >= 5 && fresh(mask)

//@ iface cipher.AEAD.Open(a, dst, nonce, ciphertext, additionalData) (plain, err)
//@   ensures isnil(err) ==> len(plain) <= len(dst) + len(ciphertext)

//@ objinv ProtectionKey: len(this.iv) >= 8

//@ func (*ProtectionKey).nonce
//@   props C03
//@   ensures len(ret) == len(pk.iv) && fresh(ret)

//@ func (*PacketProtector).UnProtect
//@   props C03
//@   requires pp.key != nil && len(pp.key.iv) >= 8 && pp.key.aead != nil && pp.key.headerProtection != nil
//@   requires len(packet) >= 1 && pnOffset >= 0 && pnOffset <= 4611686018427387903
//@   modifies packet[0:len(packet)]

//@ func extractCryptoFrames
//@   props C03 C17
//@   requires r != nil && src(r) == r && reliable(r)
//@   ensures isnil(ret1) ==> forall(i, 0, len(ret0), ret0[i].Offset >= 0 && len(ret0[i].Data) <= 262144 && (ret0[i].Data == nil || fresh(ret0[i].Data)))
//@   ensures ret0 == nil || fresh(ret0)
//@   modifies rpos
//@   loop 0
//@     invariant forall(i, 0, len(frames), frames[i].Offset >= 0 && len(frames[i].Data) <= 262144 && (frames[i].Data == nil || fresh(frames[i].Data)))
//@     invariant sel(rpos, r) <= sel(rlen, r) && (frames == nil || fresh(frames))

//@ func assembleCryptoFrames
//@   props C03 C17
//@   ensures ret == nil || fresh(ret) || (len(frames) == 1 && ret == old(frames[0].Data))
//@   requires forall(i, 0, len(frames), frames[i].Offset >= 0 && len(frames[i].Data) <= 262144)
//@   modifies elems(frames)
//@   loop 0
//@     invariant 1 <= i && i <= len(frames)
//@     invariant forall(k, 0, len(frames), frames[k].Offset >= 0 && len(frames[k].Data) <= 262144)
//@     invariant forall(k, 0, i, frames[k].Offset <= frames[i-1].Offset)
//@   loop 1
//@     invariant forall(k, 0, len(frames), frames[k].Offset >= 0 && frames[k].Offset <= last.Offset)

// ReadCryptoPayload leaves its argument untouched: header-protection removal and decryption
// work on a private copy (C17: the sniffed first UDP packet is forwarded as it was)
//@ func ReadCryptoPayload
//@   props C03 C17
//@   ensures ret0 == nil || fresh(ret0)
//@   modifies rpos, rlen, rdata, rbase, roff
