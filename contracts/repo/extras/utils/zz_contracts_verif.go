//go:build verif

// Contracts for the deductive verifier under /verif (comment-only; no declarations).
package utils

// ---------------------------------------------------------------------------
// Port unions (C19). inU(u, p): port p lies in one of u's ranges.
//@ spec func inU(u, p) = exists(i, 0, len(u), u[i].Start <= p && p <= u[i].End)

// Contains is membership in the union
//@ func (PortUnion).Contains
//@   props C19
//@   ensures ret == inU(u, port)
//@   loop 0
//@     invariant forall(i, 0, rangeindex + 1, !(u[i].Start <= port && port <= u[i].End))

// Ports lists only ports of the union
//@ func (PortUnion).Ports
//@   props C19
//@   ensures forall(k, 0, len(ret), inU(u, ret[k]))
//@   loop 0
//@     invariant forall(k, 0, len(ports), inU(u, ports[k]))
//@   loop 1
//@     invariant forall(k, 0, len(ports), inU(u, ports[k]))
//@     invariant 0 <= rangeindex + 1 && rangeindex + 1 < len(u)
//@     invariant r.Start == u[rangeindex + 1].Start && r.End == u[rangeindex + 1].End
//@     invariant r.Start <= i
