//go:build verif

// Contracts for the deductive verifier under /verif (comment-only; no declarations).
package realm

// ---------------------------------------------------------------------------
// Punch packets (C20, C03). Wire layout: 8 salt bytes, then the plain packet
// (magic "HYRLMv1\0", type, 16-byte nonce, 0..1024 padding bytes) XORed with
// SHA-256(obfs key || salt) repeated.

//@ spec func pmask(key, salt, j) = sbyte(hcat(hcat(0, hseq(row(key), off(key), len(key))), hseq(row(salt), off(salt), len(salt))), j)
//@ spec func disjoint(a, b) = base(a) != base(b) || off(a) + len(a) <= off(b) || off(b) + len(b) <= off(a)

//@ func validPunchPacketType
//@   props C20 C03
//@   ensures ret == (packetType == 1 || packetType == 2)

// xorPunchPacket: every byte of packet is XORed with the mask byte of its position; key and salt are only read
//@ func xorPunchPacket
//@   props C20 C03
//@   requires disjoint(packet, obfsKey) && disjoint(packet, salt)
//@   ensures forall(i, 0, len(packet), packet[i] == xor8(old(packet[i]), old(pmask(obfsKey, salt, i % 32))))
//@   modifies packet[0:len(packet)], hst
//@   loop 0
//@     invariant len(mask) == 32 && fresh(mask)
//@     invariant forall(j, 0, 32, mask[j] == old(pmask(obfsKey, salt, j)))
//@     invariant forall(i, 0, rangeindex + 1, packet[i] == xor8(old(packet[i]), mask[i % 32]))
//@     invariant forall(i, rangeindex + 1, len(packet), packet[i] == old(packet[i]))

//@ func decodeHexSize
//@   props C20 C03
//@   ensures isnil(ret1) == (hexok(value) && len(value) == 2 * size)
//@   ensures isnil(ret1) ==> len(ret0) == size && fresh(ret0) && len(value) == 2 * size && forall(i, 0, size, ret0[i] == hexb(value, i))
//@   ensures isnil(ret1) ==> hseq(row(ret0), off(ret0), len(ret0)) == hexseq(value)
//@   ensures !isnil(ret1) ==> ret0 == nil

//@ spec func metaOK(meta) = hexok(meta.Nonce) && len(meta.Nonce) == 32 && hexok(meta.Obfs) && len(meta.Obfs) == 64
//@ func decodePunchMetadata
//@   props C20 C03
//@   ensures isnil(err) == metaOK(meta)
//@   ensures isnil(err) ==> len(nonce) == 16 && len(obfsKey) == 32 && fresh(nonce) && fresh(obfsKey) && base(nonce) != base(obfsKey)
//@       && forall(i, 0, 16, nonce[i] == hexb(meta.Nonce, i)) && forall(i, 0, 32, obfsKey[i] == hexb(meta.Obfs, i))
//@       && hseq(row(obfsKey), off(obfsKey), len(obfsKey)) == hexseq(meta.Obfs)
//@   ensures !isnil(err) ==> nonce == nil && obfsKey == nil

//@ func randomPaddingLength
//@   props C20 C03
//@   ensures isnil(ret1) ==> 0 <= ret0 && ret0 <= 1024

// the magic is established by the package initialiser and never stored to afterwards
//@ globalinv C20 C03: punchMagic[0] == 72 && punchMagic[1] == 89 && punchMagic[2] == 82 && punchMagic[3] == 76 && punchMagic[4] == 77 && punchMagic[5] == 118 && punchMagic[6] == 49 && punchMagic[7] == 0

// byte i of the plain packet: the wire byte un-XORed with the mask of (obfs key of meta, the packet's own salt)
//@ spec func dmask(meta, packet, j) = sbyte(hcat(hcat(0, hexseq(meta.Obfs)), hseq(row(packet), off(packet), 8)), j)
//@ spec func plainAt(meta, packet, i) = xor8(packet[8+i], dmask(meta, packet, i % 32))

// DecodePunchPacket: total, never writes to the packet, and accepts only packets of
// length 33..1057 whose un-XORed bytes are the magic, a valid type and the attempt's nonce.
//@ func DecodePunchPacket
//@   props C20 C03
//@   ensures forall(k, 0, len(packet), packet[k] == old(packet[k]))
//@   ensures isnil(ret1) ==> len(packet) >= 33 && len(packet) <= 1057 && (ret0.Type == 1 || ret0.Type == 2) && ret0.PaddingLength == len(packet) - 33
//@   ensures isnil(ret1) ==> forall(i, 0, 8, plainAt(meta, packet, i) == punchMagic[i]) && plainAt(meta, packet, 8) == ret0.Type
//@   ensures isnil(ret1) ==> forall(i, 0, 16, plainAt(meta, packet, 9 + i) == hexb(meta.Nonce, i))
//@   ensures isnil(ret1) ==> metaOK(meta)
//@   ensures len(packet) >= 33 && len(packet) <= 1057 && metaOK(meta) && forall(i, 0, 8, plainAt(meta, packet, i) == punchMagic[i])
//@       && (plainAt(meta, packet, 8) == 1 || plainAt(meta, packet, 8) == 2) && forall(i, 0, 16, plainAt(meta, packet, 9 + i) == hexb(meta.Nonce, i)) ==> isnil(ret1) && ret0.Type == plainAt(meta, packet, 8)
//@   modifies hst

// accepts(meta, packet): packet decodes as a punch packet under exactly this metadata
//@ spec func accepts(meta, packet) = len(packet) >= 33 && len(packet) <= 1057 && metaOK(meta) && forall(i, 0, 8, plainAt(meta, packet, i) == punchMagic[i])
//@       && (plainAt(meta, packet, 8) == 1 || plainAt(meta, packet, 8) == 2) && forall(i, 0, 16, plainAt(meta, packet, 9 + i) == hexb(meta.Nonce, i))

//@ ghost var saltRowBefore (Array Int Int)
//@ hook call xorPunchPacket(pk, key, salt) in EncodePunchPacket
//@   update saltRowBefore = row(salt)
//@ hook after call xorPunchPacket(pk, key, salt) in EncodePunchPacket
//@   use HSEQ_EXT(row(salt), off(salt), saltRowBefore, off(salt), 8)

// EncodePunchPacket produces exactly what DecodePunchPacket accepts under the same metadata
// (for every padding length it can draw and both types): the round trip is these two contracts.
//@ func EncodePunchPacket
//@   props C20 C03
//@   ensures isnil(ret1) ==> len(ret0) >= 33 && len(ret0) <= 1057 && fresh(ret0) && metaOK(meta) && (packetType == 1 || packetType == 2)
//@   ensures isnil(ret1) ==> forall(i, 0, 8, plainAt(meta, ret0, i) == punchMagic[i]) && plainAt(meta, ret0, 8) == packetType
//@   ensures isnil(ret1) ==> forall(i, 0, 16, plainAt(meta, ret0, 9 + i) == hexb(meta.Nonce, i))
//@   modifies hst

// ---------------------------------------------------------------------------
// The demultiplexing socket.

//@ ghost var rwlock Bool
//@ hook call (*RWMutex).RLock(m)
//@   update rwlock = true
//@ hook call (*RWMutex).RUnlock(m)
//@   update rwlock = false
//@ hook call (*RWMutex).Lock(m)
//@   update rwlock = true
//@ hook call (*RWMutex).Unlock(m)
//@   update rwlock = false
//@ guard load PunchPacketConn.attempts(obj)
//@   props C20
//@   requires rwlock

//@ func (*PunchPacketConn).decodePunchPacket
//@   props C20 C03
//@   nonil
//@   requires !rwlock
//@   ensures !rwlock
//@   ensures forall(k, 0, len(packet), packet[k] == old(packet[k]))
//@   ensures ret1 ==> indom(c.attempts, ret0.AttemptID) && accepts(c.attempts[ret0.AttemptID], packet)
// interference: by the time the read lock is held other goroutines may have registered or
// removed attempts, so callers learn nothing about the registry beyond the postcondition
//@   modifies hst, rwlock, mapof(c.attempts)
//@   loop 0
//@     invariant rwlock
//@     invariant forall(k, 0, len(packet), packet[k] == old(packet[k]))

//@ func (*PunchPacketConn).AddPunchAttempt
//@   props C20
//@   nonil
//@   requires !rwlock
//@   ensures !rwlock
//@   ensures isnil(ret) ==> indom(c.attempts, id) && c.attempts[id].Nonce == meta.Nonce && c.attempts[id].Obfs == meta.Obfs
//@   ensures !isnil(ret) ==> forallStr(k, indom(c.attempts, k) == old(indom(c.attempts, k)))
//@   ensures forallStr(k, k != id ==> indom(c.attempts, k) == old(indom(c.attempts, k)))
//@   ensures forallStr(k, k != id && indom(c.attempts, k) ==> c.attempts[k].Nonce == old(c.attempts[k].Nonce) && c.attempts[k].Obfs == old(c.attempts[k].Obfs))
//@   modifies any

//@ func (*PunchPacketConn).RemovePunchAttempt
//@   props C20
//@   nonil
//@   requires !rwlock
//@   ensures !rwlock && !indom(c.attempts, id)
//@   ensures forallStr(k, k != id ==> indom(c.attempts, k) == old(indom(c.attempts, k)))
//@   ensures forallStr(k, k != id && indom(c.attempts, k) ==> c.attempts[k].Nonce == old(c.attempts[k].Nonce) && c.attempts[k].Obfs == old(c.attempts[k].Obfs))
//@   modifies any

// ReadFrom: a packet is withheld (the loop continues) only when it decoded as a STUN
// binding response or as a punch packet of a registered attempt; whatever is returned is
// exactly what the wrapped socket delivered last: same length, same source, same bytes.
//@ ghost var innerN Int
//@ ghost var innerAddrPl Int
//@ ghost var innerAddrTag Int
//@ ghost var innerRow (Array Int Int)
//@ ghost var diverted Int
//@ hook after call PacketConn.ReadFrom(c2, p2) (n2, a2, e2) in (*PunchPacketConn).ReadFrom
//@   update innerN = n2
//@   update innerAddrPl = payload(a2)
//@   update innerAddrTag = tagof(a2)
//@   update innerRow = row(p2)
//@ guard call PacketConn.ReadFrom(c2, p2) in (*PunchPacketConn).ReadFrom
//@   props C20
//@   requires p2 == p
//@ hook call emitSTUN(c2, ev)
//@   update diverted = diverted + 1
//@ hook call emitPunch(c2, ev)
//@   update diverted = diverted + 1
// a packet is diverted as a punch packet only if it decodes under the metadata of an attempt
// that is registered now (as of the last time this goroutine held the registry lock)
//@ guard call emitPunch(c2, ev) in (*PunchPacketConn).ReadFrom
//@   props C20
//@   requires c2 == c && 0 <= innerN && innerN <= len(p) && indom(c.attempts, ev.AttemptID) && accepts(c.attempts[ev.AttemptID], p[0:innerN])

//@ func (*PunchPacketConn).decodeSTUNPacket
//@   props C20 C03
//@   trusted
//@   ensures forall(k, 0, len(packet), packet[k] == old(packet[k]))

//@ func (*PunchPacketConn).emitSTUN
//@   props C20
//@   trusted
//@ func (*PunchPacketConn).emitPunch
//@   props C20
//@   trusted

//@ func (*PunchPacketConn).ReadFrom
//@   props C20 C03
//@   nonil
//@   requires !rwlock
//@   ensures !rwlock
//@   ensures ret0 == innerN && payload(ret1) == innerAddrPl && tagof(ret1) == innerAddrTag
//@   ensures isnil(ret2) ==> ret0 >= 0 && ret0 <= len(p) && forall(k, 0, ret0, p[k] == sel(innerRow, off(p) + k))
//@   modifies p[0:len(p)], hst, rwlock, innerN, innerAddrPl, innerAddrTag, innerRow, diverted, mapof(c.attempts)
//@   loop 0
//@     invariant !rwlock

// ---------------------------------------------------------------------------
// STUN replies (C03): decoding is delegated to the STUN library (no contract: assumed not to
// panic); what this package does with the decoded message and address is panic-free.
// ... and only a Binding *success response* (method 1, class 2) is ever reported as one: a
// Binding request or indication that happens to carry a mapped address is not withheld (C20).
// The library's value of BindingSuccess is a precondition, i.e. an assumption (pion/stun:
// NewType(MethodBinding, ClassSuccessResponse)); the attribute getters are assumed not to change
// the message type.
//@ func parseSTUNBindingResponse
//@   props C03 C20
//@   requires stun.BindingSuccess.Method == 1 && stun.BindingSuccess.Class == 2
//@   ensures isnil(ret2) ==> ret0 != nil && ret0.Type.Method == 1 && ret0.Type.Class == 2
//@   modifies any
//@ func netIPPortToAddrPort
//@   props C03 C20
// Discover / DiscoverWithDemux keep maps keyed by arrays and netip.AddrPort, which the map model
// does not cover; their handling of received bytes is buf[:n] with n from ReadFrom and the
// call of parseSTUNBindingResponse above.
