//go:build verif

// Contracts for the deductive verifier under /verif (comment-only; no declarations).
package http

// ---------------------------------------------------------------------------
// The HTTP inbound's credential gate (C18). With an AuthFunc configured, every request is
// checked before it is served: handleConnect / handleRequest (the only places that reach
// the upstream: HyClient.TCP directly, or through the http.Client whose dialler is set in
// initHTTPClient) are called from dispatch only after the AuthFunc accepted the credentials
// on this connection (the code checks every request; the property asks for an accepted credential before any upstream use, which is what the guards require).
//@ ghost var hAccepts Int
//@ fnfield Server.AuthFunc(this, u, p) (ok)
//@ hook after call Server.AuthFunc(this, u, p) (ok) in (*Server).dispatch
//@   update hAccepts = hAccepts + ite(ok, 1, 0)
// strings.HasPrefix(strings.ToLower(pAuth), "basic ") implies len(pAuth) >= 6: every ASCII byte
// of a lower-cased string comes from a rune of at least one byte of the original (case
// mapping can lengthen a string only by producing non-ASCII bytes)
//@ axiom LOWER_PREFIX (s string, ok bool): ok ==> len(s) >= 6
//@ hook after call strings.HasPrefix(a, b) (ok) in (*Server).dispatch
//@   use LOWER_PREFIX(pAuth, ok)
//@ guard call (*Server).handleConnect(sv, c, r) in (*Server).dispatch
//@   props C18
//@   requires sv == s && (s.AuthFunc == nil || hAccepts > old(hAccepts))
//@ guard call (*Server).handleRequest(sv, c, r) in (*Server).dispatch
//@   props C18
//@   requires sv == s && c == conn && (s.AuthFunc == nil || hAccepts > old(hAccepts))
//@ func (*Server).handleConnect
//@   props C18
//@   trusted
//@   modifies anybut(hAccepts)
//@ func (*Server).handleRequest
//@   props C18
//@   trusted
//@   modifies anybut(hAccepts)
//@ func (*Server).dispatch
//@   props C18
//@   nonil
//@   requires !isnil(conn)
//@   modifies any
//@   loop 0
//@     invariant !isnil(conn) && bufReader != nil && hAccepts >= old(hAccepts)

//@ structural C18: calls client.Client.TCP in (*Server).handleConnect | (*Server).initHTTPClient
//@ structural C18: refs (*Server).handleConnect in (*Server).dispatch
//@ structural C18: refs (*Server).handleRequest in (*Server).dispatch
//@ structural C18: refs (*Server).initHTTPClient in (*Server).handleRequest
//@ structural C18: refs (*Server).dispatch in (*Server).Serve
//@ structural C18: uses Server.httpClient in (*Server).handleRequest | (*Server).initHTTPClient
