//go:build verif

// Contracts for the deductive verifier under /verif (comment-only; no declarations).
package socks5

// ---------------------------------------------------------------------------
// The SOCKS5 inbound's credential gate (C18). When an AuthFunc is configured, the upstream
// (HyClient.TCP / HyClient.UDP) is reached only through handleTCP / handleUDP, these are
// called only from dispatch, and dispatch calls them only after negotiate returned true,
// which with an AuthFunc happens only after the AuthFunc accepted the presented credentials
// in that very negotiation.
//@ ghost var s5AuthCalls Int
//@ ghost var s5AuthOK Bool
//@ ghost var s5NegCalls Int
//@ ghost var s5NegOK Bool
//@ fnfield Server.AuthFunc(this, u, p) (ok)
//@ hook after call Server.AuthFunc(this, u, p) (ok) in (*Server).negotiate
//@   update s5AuthCalls = s5AuthCalls + 1
//@   update s5AuthOK = ok
//@ hook after call (*Server).negotiate(sv, c) (ok, err) in (*Server).dispatch
//@   update s5NegCalls = s5NegCalls + 1
//@   update s5NegOK = ok

//@ func (*Server).negotiate
//@   props C18
//@   nonil
//@   requires !isnil(conn)
//@   ensures ret0 && s.AuthFunc != nil ==> s5AuthCalls == old(s5AuthCalls) + 1 && s5AuthOK
//@   ensures s5AuthCalls <= old(s5AuthCalls) + 1
//@   modifies anybut(s5NegCalls, s5NegOK)

//@ guard call (*Server).handleTCP(sv, c, r) in (*Server).dispatch
//@   props C18
//@   requires s5NegCalls == old(s5NegCalls) + 1 && s5NegOK && sv == s && c == conn
//@ guard call (*Server).handleUDP(sv, c, r) in (*Server).dispatch
//@   props C18
//@   requires s5NegCalls == old(s5NegCalls) + 1 && s5NegOK && sv == s && c == conn && !s.DisableUDP
//@ func (*Server).handleTCP
//@   props C18
//@   trusted
//@   modifies anybut(s5NegCalls, s5NegOK, s5AuthCalls, s5AuthOK)
//@ func (*Server).handleUDP
//@   props C18
//@   trusted
//@   modifies anybut(s5NegCalls, s5NegOK, s5AuthCalls, s5AuthOK)
//@ func (*Server).dispatch
//@   props C18
//@   nonil
//@   requires !isnil(conn)
//@   modifies any

//@ structural C18: calls client.Client.TCP in (*Server).handleTCP
//@ structural C18: calls client.Client.UDP in (*Server).handleUDP
//@ structural C18: refs (*Server).handleTCP in (*Server).dispatch
//@ structural C18: refs (*Server).handleUDP in (*Server).dispatch
//@ structural C18: refs (*Server).dispatch in (*Server).Serve
