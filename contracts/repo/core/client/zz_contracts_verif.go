//go:build verif

// Contracts for the deductive verifier under /verif (comment-only; no declarations).
package client

//@ ghost var respRx Int
//@ ghost var respRxAuto Bool
//@ ghost var respUDP Bool
//@ ghost var cBrutalCalls Int
//@ ghost var cConfiguredCalls Int
//@ ghost var reqHdrCalls Int

// the client's send rate: its own limit MaxTx (0 = unknown: no fixed rate) capped by
// the server's declared receive limit (0 = unlimited)
//@ spec func clientTx(serverRx, maxTx) = ite(maxTx == 0, 0, ite(serverRx == 0, maxTx, min(serverRx, maxTx)))

//@ hook after call protocol.AuthResponseFromHeader(hd) (resp)
//@   update respRx = resp.Rx
//@   update respRxAuto = resp.RxAuto
//@   update respUDP = resp.UDPEnabled
//@ hook call congestion.UseBrutal(conn, tx, dlc)
//@   update cBrutalCalls = cBrutalCalls + 1
//@ hook call congestion.UseConfigured(conn, t, p)
//@   update cConfiguredCalls = cConfiguredCalls + 1
//@ hook call protocol.AuthRequestToHeader(hd, req)
//@   update reqHdrCalls = reqHdrCalls + 1

//@ guard call protocol.AuthRequestToHeader(hd, req) in (*clientImpl).connect
//@   props C10
//@   requires req.Rx == c.config.BandwidthConfig.MaxRx && req.Auth == c.config.Auth
//@ guard call congestion.UseBrutal(qc, tx, dlc) in (*clientImpl).connect
//@   props C10
//@   requires !respRxAuto && tx == clientTx(respRx, c.config.BandwidthConfig.MaxTx) && tx > 0 && dlc == c.config.BandwidthConfig.DisableLossCompensation
//@ guard call congestion.UseConfigured(qc, t, p) in (*clientImpl).connect
//@   props C10
//@   requires (respRxAuto || clientTx(respRx, c.config.BandwidthConfig.MaxTx) == 0) && t == c.config.CongestionConfig.Type && p == c.config.CongestionConfig.BBRProfile

// nothing else in the package installs a congestion controller
//@ structural C10: refs congestion.UseBrutal in (*clientImpl).connect
//@ structural C10: refs congestion.UseConfigured in (*clientImpl).connect
//@ structural C10: refs congestion.UseBBR in nowhere
//@ structural C10: calls (*Conn).SetCongestionControl in nowhere

// Error classification (C16): "a recoverable error such as a stream limit does not trigger a
// reconnect". quic-go's OpenStream reports the stream limit as a *quic.StreamLimitReachedError
// (a pointer: streams_map_outgoing.go); such an error must come back as it is, not wrapped as a
// closed-connection error (which is what makes the reconnecting client drop the connection).
//@ func wrapIfConnectionClosed
//@   props C16
//@   ensures tagof(err) == typetag("*quic.StreamLimitReachedError") ==> ret == err

// The transport socket (C16). A socket obtained from the connection factory is private to the
// connect invocation (cPriv, cPrivOpen) until connect succeeds: a failed connect has closed it.
// Closing a client closes its transport and its socket whatever state the connection is in.
//@ ghost var cPriv Int
//@ ghost var cPrivOpen Bool
//@ ghost var sockClosed (Array Int Bool)
//@ ghost var trClosed (Array Int Bool)
//@ hook call ConnFactory.New(f, a) in (*clientImpl).connect
//@   update cPrivOpen = false
//@ hook after call ConnFactory.New(f, a) (pc, err) in (*clientImpl).connect
//@   when isnil(err)
//@   update cPriv = payload(pc)
//@   update cPrivOpen = true
//@ hook call net.PacketConn.Close(pc) in (*clientImpl).connect
//@   update cPrivOpen = cPrivOpen && payload(pc) != cPriv
//@ hook call net.PacketConn.Close(pc) in (*clientImpl).Close
//@   update sockClosed = upd(sockClosed, payload(pc), true)
//@ hook call (*Transport).Close(t) in (*clientImpl).Close
//@   update trClosed = upd(trClosed, t, true)
//@ func (*clientImpl).Close
//@   props C16
//@   nonil
//@   requires c.conn != nil && c.tr != nil && !isnil(c.pktConn)
//@   ensures selBool(sockClosed, payload(c.pktConn)) && selBool(trClosed, c.tr)
//@   modifies sockClosed, trClosed

//@ func (*clientImpl).connect
//@   props C10 C16
//@   nonil
//@   ensures !isnil(ret1) ==> !cPrivOpen
//@   ensures isnil(ret1) ==> cPrivOpen && payload(c.pktConn) == cPriv && c.tr != nil
//@   ensures isnil(ret1) ==> ret0 != nil && ret0.Tx == ite(respRxAuto, 0, clientTx(respRx, c.config.BandwidthConfig.MaxTx)) && ret0.UDPEnabled == respUDP
//@   ensures isnil(ret1) ==> cBrutalCalls + cConfiguredCalls == old(cBrutalCalls) + old(cConfiguredCalls) + 1
//@   ensures isnil(ret1) ==> (cBrutalCalls == old(cBrutalCalls) + 1) == (!respRxAuto && clientTx(respRx, c.config.BandwidthConfig.MaxTx) > 0)
//@   ensures !isnil(ret1) ==> cBrutalCalls == old(cBrutalCalls) && cConfiguredCalls == old(cConfiguredCalls) && ret0 == nil
//@   modifies c.pktConn, c.tr, c.conn, c.udpSM, ghosts

// ---------------------------------------------------------------------------
// The reconnecting client (C16), as a sequential object (its methods run under rc.m; what
// other goroutines do between clientDo's two critical sections is not modelled).
// live[rc][c]: client c was obtained from NewClient by rc and has not been closed since.
// Invariant at every method exit: the only live client is the one rc refers to - a
// superseded or dropped client has been closed.
//@ ghost var live (Array Int (Array Int Bool))
//@ hook after call NewClient(cfg) (c, info, err) in (*reconnectableClientImpl).reconnect
//@   when isnil(err)
//@   update live = upd(live, rc, payload(c), true)
//@ hook call Client.Close(c) in (*reconnectableClientImpl).reconnect | (*reconnectableClientImpl).clientDo | (*reconnectableClientImpl).Close
//@   update live = upd(live, rc, payload(c), false)
//@ spec func liveInv(rc) = forall(c, selBool(live, rc, c) ==> !isnil(rc.client) && c == payload(rc.client))
//@ objinv reconnectableClientImpl: liveInv(this)

//@ func NewClient
//@   props C16
//@   trusted
//@   ensures isnil(ret2) ==> !isnil(ret0) && !selBool(old(live), arg0, payload(ret0))
//@   ensures !isnil(ret2) ==> isnil(ret0)
//@ iface Client.Close(c) (err)
//@ fnfield reconnectableClientImpl.configFunc(this) (cfg, err)
//@ fnfield reconnectableClientImpl.connectedFunc(this, c, info, n)
//@ fnfield clientDo.f(c) (ret, err)

//@ func (*reconnectableClientImpl).reconnect
//@   props C16
//@   nonil
//@   requires rc.configFunc != nil
//@   ensures isnil(ret) ==> !isnil(rc.client)
//@   ensures isnil(ret) && old(rc.count) < 9223372036854775807 ==> rc.count == old(rc.count) + 1
//@   ensures isnil(ret) ==> selBool(live, rc, payload(rc.client))
//@   ensures !isnil(ret) ==> rc.count == old(rc.count) && forall(c, !selBool(live, rc, c))
//@   ensures rc.closed == old(rc.closed)
//@   modifies rc.client, rc.count, live

//@ func (*reconnectableClientImpl).clientDo
//@   props C16
//@   nonil
//@   requires rc.configFunc != nil && f != nil
//@   modifies rc.client, rc.count, rc.closed, live

//@ func (*reconnectableClientImpl).Close
//@   props C16
//@   nonil
//@   ensures rc.closed && forall(c, !selBool(live, rc, c))
//@   modifies rc.closed, live

// every (re)connection evaluates the configuration function afresh and connects with its result
//@ ghost var cfgCalls Int
//@ ghost var lastCfg Int
//@ hook after call reconnectableClientImpl.configFunc(this) (cfg, err) in (*reconnectableClientImpl).reconnect
//@   update cfgCalls = cfgCalls + 1
//@   update lastCfg = cfg
//@ guard call NewClient(cfg) in (*reconnectableClientImpl).reconnect
//@   props C16
//@   requires cfgCalls == old(cfgCalls) + 1 && cfg == lastCfg
//@ structural C16: refs NewClient in (*reconnectableClientImpl).reconnect
//@ structural C16: stores reconnectableClientImpl.client in (*reconnectableClientImpl).reconnect | (*reconnectableClientImpl).clientDo
//@ structural C16: stores reconnectableClientImpl.closed in (*reconnectableClientImpl).Close value true

// interference: other goroutines may change these between two critical sections
//@ monitor reconnectableClientImpl.m: client, count, closed, ghost live

// a permanently closed client never reconnects: reconnect is called only with the closed
// flag read false in the same critical section (other goroutines may set it at any
// lock acquisition, which is why this is a call-site guard and not a postcondition
// relative to the flag's value at entry)
//@ guard call (*reconnectableClientImpl).reconnect(r) in (*reconnectableClientImpl).clientDo
//@   props C16
//@   requires r == rc && !rc.closed && isnil(rc.client)
