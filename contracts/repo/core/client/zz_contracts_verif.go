//go:build verif

// Contracts for the deductive verifier under /verif (comment-only; no declarations).
package client

//@ ghost var respRx Int
//@ ghost var respRxAuto Bool
//@ ghost var respUDP Bool
//@ ghost var cBrutalCalls Int
//@ ghost var cConfiguredCalls Int
//@ ghost var reqHdrCalls Int

// the client's send rate: its own limit MaxTx (0 = unknown: no fixed rate) capped by
// the server's declared receive limit (0 = unlimited)
//@ spec func clientTx(serverRx, maxTx) = ite(maxTx == 0, 0, ite(serverRx == 0, maxTx, min(serverRx, maxTx)))

//@ hook after call protocol.AuthResponseFromHeader(hd) (resp)
//@   update respRx = resp.Rx
//@   update respRxAuto = resp.RxAuto
//@   update respUDP = resp.UDPEnabled
//@ hook call congestion.UseBrutal(conn, tx, dlc)
//@   update cBrutalCalls = cBrutalCalls + 1
//@ hook call congestion.UseConfigured(conn, t, p)
//@   update cConfiguredCalls = cConfiguredCalls + 1
//@ hook call protocol.AuthRequestToHeader(hd, req)
//@   update reqHdrCalls = reqHdrCalls + 1

//@ guard call protocol.AuthRequestToHeader(hd, req) in (*clientImpl).connect
//@   props C10
//@   requires req.Rx == c.config.BandwidthConfig.MaxRx && req.Auth == c.config.Auth
//@ guard call congestion.UseBrutal(qc, tx, dlc) in (*clientImpl).connect
//@   props C10
//@   requires !respRxAuto && tx == clientTx(respRx, c.config.BandwidthConfig.MaxTx) && tx > 0 && dlc == c.config.BandwidthConfig.DisableLossCompensation
//@ guard call congestion.UseConfigured(qc, t, p) in (*clientImpl).connect
//@   props C10
//@   requires (respRxAuto || clientTx(respRx, c.config.BandwidthConfig.MaxTx) == 0) && t == c.config.CongestionConfig.Type && p == c.config.CongestionConfig.BBRProfile

//@ func (*clientImpl).connect
//@   props C10
//@   nonil
//@   ensures isnil(ret1) ==> ret0 != nil && ret0.Tx == ite(respRxAuto, 0, clientTx(respRx, c.config.BandwidthConfig.MaxTx)) && ret0.UDPEnabled == respUDP
//@   ensures isnil(ret1) ==> cBrutalCalls + cConfiguredCalls == old(cBrutalCalls) + old(cConfiguredCalls) + 1
//@   ensures isnil(ret1) ==> (cBrutalCalls == old(cBrutalCalls) + 1) == (!respRxAuto && clientTx(respRx, c.config.BandwidthConfig.MaxTx) > 0)
//@   ensures !isnil(ret1) ==> cBrutalCalls == old(cBrutalCalls) && cConfiguredCalls == old(cConfiguredCalls) && ret0 == nil
//@   modifies c.pktConn, c.tr, c.conn, c.udpSM, ghosts
