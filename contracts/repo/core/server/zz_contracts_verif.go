//go:build verif

// Contracts for the deductive verifier under /verif (comment-only; no declarations).
package server

// ---------------------------------------------------------------------------
// Ghost state driven by call sites (one handler invocation at a time).

//@ ghost var authCalls Int
//@ ghost var authOK Bool
//@ ghost var authRxArg Int
//@ ghost var reqRx Int
//@ ghost var wOps Int
//@ ghost var masqCalls Int
//@ ghost var notFoundCalls Int
//@ ghost var brutalCalls Int
//@ ghost var configuredCalls Int
//@ ghost var udpSpawns Int
//@ ghost var streamReads Int
//@ ghost var tcpSpawns Int
//@ ghost var onlineCalls Int
//@ ghost var offlineCalls Int
//@ ghost var curHandler ref *h3sHandler
//@ ghost var refusals Int
//@ ghost var limitCloses Int

//@ spec func isAuthReq(r) = r.Method == "POST" && r.Host == "hysteria" && r.URL.Path == "/auth"
// the server's send rate: the client's declared receive limit (0 = unknown: no fixed
// rate) capped by the server's own limit MaxTx (0 = unlimited)
//@ spec func serverTx(clientRx, maxTx) = ite(clientRx == 0, 0, ite(maxTx == 0, clientRx, min(clientRx, maxTx)))

//@ hook after call Authenticator.Authenticate(a, addr, auth, tx) (ok, id)
//@   props C01 C02 C10 C15
//@   update authCalls = authCalls + 1
//@   update authOK = ok
//@   update authRxArg = tx
//@ hook after call protocol.AuthRequestFromHeader(hd) (req)
//@   props C01 C02 C10 C15
//@   update reqRx = req.Rx
//@ hook call ResponseWriter.Header(w)
//@   props C01 C02 C10 C15
//@   update wOps = wOps + 1
//@ hook call ResponseWriter.WriteHeader(w, code)
//@   props C01 C02 C10 C15
//@   update wOps = wOps + 1
//@ hook call ResponseWriter.Write(w, b)
//@   props C01 C02 C10 C15
//@   update wOps = wOps + 1
//@ hook call Handler.ServeHTTP(hh, w, r)
//@   props C01 C02 C10 C15
//@   update masqCalls = masqCalls + 1
//@ hook call http.NotFound(w, r)
//@   props C01 C02 C10 C15
//@   update notFoundCalls = notFoundCalls + 1
//@ hook call congestion.UseBrutal(conn, tx, dlc)
//@   props C01 C02 C10 C15
//@   update brutalCalls = brutalCalls + 1
//@ hook call congestion.UseConfigured(conn, t, p)
//@   props C01 C02 C10 C15
//@   update configuredCalls = configuredCalls + 1
//@ hook go ServeHTTP$1()
//@   props C01 C02 C10 C15
//@   update udpSpawns = udpSpawns + 1
//@ hook call TrafficLogger.LogOnlineState(tl, id, online)
//@   props C01 C02 C10 C15
//@   update onlineCalls = onlineCalls + ite(online, 1, 0)
//@   update offlineCalls = offlineCalls + ite(online, 0, 1)
//@ hook after call newH3sHandler(cfg, q) (hh)
//@   update curHandler = hh
//@ hook after call TrafficLogger.LogTraffic(tl, id, tx, rx) (ok)
//@   update refusals = refusals + ite(ok, 0, 1)
//@ hook call (*Conn).CloseWithError(c, code, msg)
//@   update limitCloses = limitCloses + ite(code == 263, 1, 0)

// ---------------------------------------------------------------------------
// C01: the flag is set only by an accepted verdict of this invocation's single
// Authenticate call; the UDP manager is spawned only then.

//@ guard store h3sHandler.authenticated(obj, val)
//@   props C01
//@   requires obj == h && val == true && authOK && authCalls == old(authCalls) + 1 && isAuthReq(r)
//@ guard go ServeHTTP$1()
//@   props C01
//@   requires authOK && authCalls == old(authCalls) + 1 && h.authenticated && !h.config.DisableUDP
//@ guard call Authenticator.Authenticate(a, addr, auth, tx)
//@   props C01 C10
//@   requires !h.authenticated && isAuthReq(r) && authCalls == old(authCalls) && tx == reqRx

// C10 (server side): the installed controller and the reported rate follow the
// lattice min(server MaxTx [0 = unlimited], client Rx [0 = unknown]).
//@ guard call congestion.UseBrutal(conn, tx, dlc)
//@   props C10
//@   requires conn == h.conn && authOK && !h.config.IgnoreClientBandwidth && tx == serverTx(reqRx, h.config.BandwidthConfig.MaxTx) && tx > 0 && dlc == h.config.BandwidthConfig.DisableLossCompensation
//@ guard call congestion.UseConfigured(conn, t, p)
//@   props C10
//@   requires conn == h.conn && authOK && (h.config.IgnoreClientBandwidth || serverTx(reqRx, h.config.BandwidthConfig.MaxTx) == 0) && t == h.config.CongestionConfig.Type && p == h.config.CongestionConfig.BBRProfile
//@ guard call EventLogger.Connect(el, addr, id, tx)
//@   props C10
//@   requires tx == ite(h.config.IgnoreClientBandwidth, 0, serverTx(reqRx, h.config.BandwidthConfig.MaxTx))
//@ guard call protocol.AuthResponseToHeader(hd, resp)
//@   props C10 C02
//@   requires (old(h.authenticated) || authOK) && isAuthReq(r) && resp.Rx == h.config.BandwidthConfig.MaxRx && resp.RxAuto == h.config.IgnoreClientBandwidth && resp.UDPEnabled == !h.config.DisableUDP
//@ guard call ResponseWriter.WriteHeader(w, code)
//@   props C02
//@   requires (old(h.authenticated) || authOK) && isAuthReq(r) && code == 233
//@ guard call ResponseWriter.Header(w)
//@   props C02
//@   requires (old(h.authenticated) || authOK) && isAuthReq(r)

//@ func (*h3sHandler).ServeHTTP
//@   props C01 C02 C10 C15
//@   nonil
//@   ensures old(h.authenticated) ==> h.authenticated && authCalls == old(authCalls)
//@   ensures !isAuthReq(r) ==> authCalls == old(authCalls) && h.authenticated == old(h.authenticated)
//@   ensures isAuthReq(r) && !old(h.authenticated) ==> authCalls == old(authCalls) + 1 && h.authenticated == authOK
//@   ensures udpSpawns == old(udpSpawns) + ite(isAuthReq(r) && !old(h.authenticated) && authOK && !h.config.DisableUDP, 1, 0)
//@   ensures isAuthReq(r) && (old(h.authenticated) || authOK) ==> masqCalls == old(masqCalls) && notFoundCalls == old(notFoundCalls) && wOps >= old(wOps) + 2
//@   ensures !(isAuthReq(r) && (old(h.authenticated) || authOK)) ==> wOps == old(wOps) && brutalCalls == old(brutalCalls) && configuredCalls == old(configuredCalls)
//@   ensures !(isAuthReq(r) && (old(h.authenticated) || authOK)) ==> masqCalls + notFoundCalls == old(masqCalls) + old(notFoundCalls) + 1
//@   ensures !(isAuthReq(r) && (old(h.authenticated) || authOK)) ==> (masqCalls == old(masqCalls) + 1) == (h.config.MasqHandler != nil)
//@   ensures isAuthReq(r) && !old(h.authenticated) && authOK ==> brutalCalls + configuredCalls == old(brutalCalls) + old(configuredCalls) + 1
//@   ensures isAuthReq(r) && !old(h.authenticated) && authOK ==> (brutalCalls == old(brutalCalls) + 1) == (!h.config.IgnoreClientBandwidth && serverTx(reqRx, h.config.BandwidthConfig.MaxTx) > 0)
//@   ensures isAuthReq(r) && old(h.authenticated) ==> brutalCalls == old(brutalCalls) && configuredCalls == old(configuredCalls)
//@   ensures onlineCalls == old(onlineCalls) + ite(isAuthReq(r) && !old(h.authenticated) && authOK && h.config.TrafficLogger != nil, 1, 0)
//@   ensures offlineCalls == old(offlineCalls) && curHandler == old(curHandler)
//@   modifies h.authenticated, h.authID, ghosts

//@ guard call Handler.ServeHTTP(hh, w2, r2)
//@   props C02
//@   requires w2 == w && r2 == r && hh == h.config.MasqHandler
//@ guard call http.NotFound(w2, r2)
//@   props C02
//@   requires w2 == w && r2 == r && h.config.MasqHandler == nil

// ---------------------------------------------------------------------------
// Stream dispatcher: nothing is read from the stream and nothing is spawned
// unless the connection's flag is set.

//@ hook call quicvarint.Read(rd)
//@   props C01 C04
//@   update streamReads = streamReads + 1
//@ hook call quicvarint.NewReader(rd)
//@   props C01 C04
//@   update streamReads = streamReads + 1
//@ hook go handleTCPRequest(hh, s)
//@   props C01 C04
//@   update tcpSpawns = tcpSpawns + 1
//@ guard go handleTCPRequest(hh, s)
//@   props C01
//@   requires hh == h && h.authenticated && err == nil && ft == 1025

//@ func (*h3sHandler).ProxyStreamHijacker
//@   props C01 C04
//@   nonil
//@   ensures err != nil || !h.authenticated ==> ret0 == false && isnil(ret1) && streamReads == old(streamReads) && tcpSpawns == old(tcpSpawns)
//@   ensures ft != 1025 ==> ret0 == false && isnil(ret1) && streamReads == old(streamReads) && tcpSpawns == old(tcpSpawns)
//@   ensures ret0 ==> tcpSpawns == old(tcpSpawns) + 1 && isnil(ret1)
//@   ensures !ret0 ==> tcpSpawns == old(tcpSpawns)
//@   ensures err != nil || !h.authenticated || ft != 1025 ==> rpos == old(rpos)
//@   ensures ret0 ==> spos(stream) == old(spos(stream)) + vw(sel(sdata(stream), old(spos(stream))))
//@   modifies streamReads, tcpSpawns, rpos

// One proxied TCP connection (C01, C06): the target is dialled once; without a hook the client is
// answered exactly once, after the dial, with the dial's outcome (and its error text); nothing is
// relayed, and no replay bytes are written, unless the dial succeeded; replay bytes handed back
// by the hook are written to the target before relaying starts.
//@ ghost var tcpDials Int
//@ ghost var tcpDialOK Bool
//@ ghost var tcpPuts Int
//@ ghost var tcpResps Int
//@ hook after call Outbound.TCP(o, a) (c, err) in (*h3sHandler).handleTCPRequest
//@   update tcpDials = tcpDials + 1
//@   update tcpDialOK = isnil(err)
//@ guard call Outbound.TCP(o, a) in (*h3sHandler).handleTCPRequest
//@   props C06 C01
//@   requires tcpDials == old(tcpDials) && a == reqAddr
//@ hook call protocol.WriteTCPResponse(w, ok, msg) in (*h3sHandler).handleTCPRequest
//@   update tcpResps = tcpResps + 1
//@ guard call protocol.WriteTCPResponse(w, ok, msg) in (*h3sHandler).handleTCPRequest
//@   props C06
//@   requires payload(w) == stream && tcpResps == old(tcpResps) && ((tcpDials == old(tcpDials) && hooked && ok) || (tcpDials == old(tcpDials) + 1 && !hooked && ok == tcpDialOK))
//@ hook call Conn.Write(c, b) in (*h3sHandler).handleTCPRequest
//@   update tcpPuts = tcpPuts + 1
//@ guard call Conn.Write(c, b) in (*h3sHandler).handleTCPRequest
//@   props C06 C17
//@   requires tcpDials == old(tcpDials) + 1 && tcpDialOK && c == tConn && b == putback && tcpPuts == old(tcpPuts)
//@ guard call copyTwoWayEx(id, a, b, l, st) in (*h3sHandler).handleTCPRequest
//@   props C06 C01
//@   requires tcpDials == old(tcpDials) + 1 && tcpDialOK && (len(putback) == 0 || tcpPuts == old(tcpPuts) + 1) && id == h.authID && b == tConn
//@ guard call copyTwoWay(a, b) in (*h3sHandler).handleTCPRequest
//@   props C06 C01
//@   requires tcpDials == old(tcpDials) + 1 && tcpDialOK && (len(putback) == 0 || tcpPuts == old(tcpPuts) + 1) && b == tConn && isnil(trafficLogger)
//@ func copyTwoWayEx
//@   props C06
//@   trusted
//@   modifies anybut(tcpDials, tcpDialOK, tcpPuts, tcpResps)
//@ func copyTwoWay
//@   props C06
//@   trusted
//@   modifies anybut(tcpDials, tcpDialOK, tcpPuts, tcpResps)
//@ func (*h3sHandler).handleTCPRequest
//@   props C01 C06
//@   nonil
//@   requires h.authenticated && stream != nil
//@   modifies any

// ---------------------------------------------------------------------------
// C15 (server side): online is reported once per accepted authentication
// (ServeHTTP above), offline once when that connection's handler returns and only
// if it was authenticated; a refused traffic report closes the QUIC connection.

//@ guard call TrafficLogger.LogOnlineState(tl, id, online) in (*h3sHandler).ServeHTTP
//@   props C15
//@   requires online && authOK && h.authenticated && id == h.authID
//@ guard call TrafficLogger.LogOnlineState(tl, id, online) in (*serverImpl).handleClient
//@   props C15
//@   requires !online && handler.authenticated && id == handler.authID && handler == curHandler

//@ func (*serverImpl).handleClient
//@   props C01 C15
//@   nonil
//@   ensures fresh(curHandler)
//@   ensures offlineCalls == old(offlineCalls) + ite(curHandler.authenticated && s.config.TrafficLogger != nil, 1, 0)
//@   modifies any

//@ func (*udpIOImpl).ReceiveMessage
//@   props C15
//@   nonil
//@   ensures limitCloses - old(limitCloses) == refusals - old(refusals)
//@   ensures refusals > old(refusals) ==> ret0 == nil && ret1 == errDisconnect
//@   ensures refusals <= old(refusals) + 1
//@   modifies ghosts
//@   loop 0
//@     invariant limitCloses == old(limitCloses) && refusals == old(refusals)

//@ func (*udpIOImpl).SendMessage
//@   props C15
//@   nonil
//@   requires base(buf) != base(msg.Data)
//@   ensures limitCloses - old(limitCloses) == refusals - old(refusals)
//@   ensures refusals > old(refusals) ==> ret == errDisconnect
//@   ensures refusals <= old(refusals) + 1
//@   modifies ghosts, buf[0:len(buf)]

// ---------------------------------------------------------------------------
// Ownership facts (discharged on the SSA of the package).

// C10: a congestion controller is installed on a connection nowhere but in the branch of
// ServeHTTP the guards above constrain (an earlier or later installation would make the
// wire rate differ from the reported one: UseConfigured leaves the controller alone for
// the default type)
//@ structural C10: refs congestion.UseBrutal in (*h3sHandler).ServeHTTP
//@ structural C10: refs congestion.UseConfigured in (*h3sHandler).ServeHTTP
//@ structural C10: refs congestion.UseBBR in nowhere
//@ structural C10: calls (*Conn).SetCongestionControl in nowhere
// C02: the request handed to the masquerade handler is the request as received: this package
// never edits a header map itself (the only header writes are those of the accepted auth
// response, made by protocol.AuthResponseToHeader under the guards above)
//@ structural C02: calls (http.Header).Del in nowhere
//@ structural C02: calls (http.Header).Set in nowhere
//@ structural C02: calls (http.Header).Add in nowhere
//@ structural C01: stores h3sHandler.authenticated in (*h3sHandler).ServeHTTP value true
//@ structural C01: allocs h3sHandler in newH3sHandler
//@ structural C01: refs newH3sHandler in (*serverImpl).handleClient
//@ structural C01: refs newUDPSessionManager in (*h3sHandler).ServeHTTP
//@ structural C01: allocs udpIOImpl in (*h3sHandler).ServeHTTP
//@ structural C01: refs (*h3sHandler).handleTCPRequest in (*h3sHandler).ProxyStreamHijacker
//@ structural C01: refs (*h3sHandler).ProxyStreamHijacker in (*serverImpl).handleClient
//@ structural C01: calls Outbound.TCP in (*h3sHandler).handleTCPRequest
//@ structural C01: calls Outbound.UDP in (*udpIOImpl).UDP
//@ structural C01: calls Outbound.CheckUDP in (*udpIOImpl).CheckUDP
//@ structural C01: calls (*Conn).ReceiveDatagram in (*udpIOImpl).ReceiveMessage
//@ structural C01: calls (*Conn).SendDatagram in (*udpIOImpl).SendMessage
//@ structural C01: calls copyTwoWay in (*h3sHandler).handleTCPRequest
//@ structural C01: calls copyTwoWayEx in (*h3sHandler).handleTCPRequest

// ---------------------------------------------------------------------------
// UDP sessions and the outbound policy (C08). The policy is an arbitrary but fixed
// predicate on destination strings per udpIO: allowUDP(io, addr). CheckUDP reports it;
// UDP() dials only what it allows (the adapter in extras/outbounds walks the same ACL for
// both; that is the assumption recorded on the two interface methods).
//@ uf allowUDP(Int, Str) Bool
//@ iface udpIO.CheckUDP(io, a) (err)
//@   ensures isnil(err) == allowUDP(payload(io), a)
//@ iface udpIO.UDP(io, a) (conn, err)
//@   ensures isnil(err) ==> !isnil(conn) && allowUDP(payload(io), a)
//@ iface udpIO.Hook(io, data, reqAddr) (err)
//@   modifies *reqAddr
//@ iface UDPConn.WriteTo(c, b, a) (n, err)
//@ iface UDPConn.ReadFrom(c, b) (n, a, err)
//@   ensures n <= len(b) && (isnil(err) ==> n >= 0)
//@   modifies b[0:len(b)]
//@ iface UDPConn.Close(c) (err)

// the dial function of a session: success means the dialled address (after the hook's
// rewrite) passed the policy of the session's IO
//@ fnfield udpSessionEntry.DialFunc(this, addr, data) (conn, actual, err)
//@   ensures isnil(err) ==> !isnil(conn) && actual != "" && allowUDP(payload(this.IO), actual)
//@ fnfield udpSessionEntry.ExitFunc(this, err)

// the decision cache holds the policy's own verdicts (its size cap is a resource matter the property does not state)
// (a session whose destination the hook rewrote never consults the cache)
//@ spec func cacheOK(e) = e.aclCache != nil && e.OverrideAddr == "" ==> forallKey(a, e.aclCache, isnil(e.aclCache[a]) == allowUDP(payload(e.IO), a))
//@ objinv udpSessionEntry: cacheOK(this) && this.D != nil && this.Last != nil && !isnil(this.IO) && (isnil(this.conn) ==> this.OverrideAddr == "")
//@ objinv udpSessionEntry: sockInv(this)

//@ func (*udpSessionEntry).checkAddr
//@   props C08
//@   nonil
//@   requires e.OverrideAddr == ""
//@   ensures isnil(ret) == allowUDP(payload(e.IO), addr)
//@   modifies e.aclCache, region("map<string,error>.dom"), region("map<string,error>.size"), region("map<string,error>.val.tag"), region("map<string,error>.val.payload")
//@   loop 0
//@     invariant cacheOK(e) && e.aclCache != nil

//@ guard call UDPConn.WriteTo(c, b, a) in (*udpSessionEntry).Feed
//@   props C08
//@   requires (e.OverrideAddr != "" && a == e.OverrideAddr) || (e.OverrideAddr == "" && a == dfMsg.Addr && allowUDP(payload(e.IO), a))
//@   requires b == dfMsg.Data

//@ func (*udpSessionEntry).Feed
//@   props C08
//@   nonil
//@   requires msg != nil
//@   modifies any

//@ func (*udpSessionEntry).initConn
//@   props C08 C07
//@   nonil
//@   requires firstMsg != nil && isnil(e.conn) && e.OverrideAddr == ""
//@   ensures isnil(ret) ==> !connPrivOpen && selBool(connOpen, e) && !e.closed
//@   ensures connPrivOpen ==> old(connPrivOpen)
//@   ensures isnil(ret) ==> !isnil(e.conn) && (e.OverrideAddr == "" ==> allowUDP(payload(e.IO), firstMsg.Addr))
//@   ensures isnil(ret) && e.OverrideAddr != "" ==> allowUDP(payload(e.IO), e.OverrideAddr) && e.OriginalAddr == firstMsg.Addr
//@   modifies any

// replies: every packet read from the session's socket goes back under the session's own ID,
// from the original address when the hook rewrote the destination, carrying exactly the bytes read
//@ ghost var rlN Int
//@ ghost var rlAddr Str
//@ hook after call UDPConn.ReadFrom(c, b) (n, a, err) in (*udpSessionEntry).receiveLoop
//@   update rlN = n
//@   update rlAddr = a
//@ guard call UDPConn.ReadFrom(c, b) in (*udpSessionEntry).receiveLoop
//@   props C08 C07
//@   requires c == e.conn && b == udpBuf
//@ guard call sendMessageAutoFrag(io, buf, msg) in (*udpSessionEntry).receiveLoop
//@   props C08 C07
//@   requires io == e.IO && msg != nil && msg.SessionID == e.ID && msg.FragCount == 1 && msg.FragID == 0
//@   requires msg.Addr == ite(e.OriginalAddr != "", e.OriginalAddr, rlAddr)
//@   requires base(msg.Data) == base(udpBuf) && off(msg.Data) == off(udpBuf) && len(msg.Data) == rlN && base(buf) != base(udpBuf)

//@ func (*udpSessionEntry).receiveLoop
//@   props C08 C07
//@   nonil
//@   requires !isnil(e.conn)
//@   modifies any
//@   loop 0
//@     invariant !isnil(e.conn) && len(udpBuf) == 4096 && len(msgBuf) == 4096 && base(udpBuf) != base(msgBuf) && !isnil(e.IO) && e.Last != nil && sockInv(e)

//@ iface udpIO.SendMessage(io, buf, msg) (err)
//@   modifies buf[0:len(buf)]
// quic-go reports the size that would have fitted; it is never negative (assumed of the library)
//@ axiom DTL_NONNEG (p *quic.DatagramTooLargeError): p != nil ==> p.MaxDatagramPayloadSize >= 0
//@ hook after call errors.As(err, target) (ok) in sendMessageAutoFrag
//@   use DTL_NONNEG(*unboxptr(target))
//@ func sendMessageAutoFrag
//@   props C08 C07 C05
//@   requires !isnil(io) && msg != nil
//@   modifies buf[0:len(buf)], msg.PacketID

// the dial function built for a new session: hook, then dial through the manager's IO; success
// means the (possibly rewritten) address passed that IO's policy
//@ func (*udpSessionManager).feed$1
//@   props C08
//@   nonil
//@   requires *m != nil && !isnil((*m).io) && !isnil((*m).eventLogger)
//@   ensures isnil(err) ==> !isnil(conn) && allowUDP(payload((*m).io), actualAddr)
//@   modifies any

//@ func newUDPSessionEntry
//@   props C08 C07
//@   ensures e != nil && fresh(e) && e.ID == id && e.IO == io && e.DialFunc == dialFunc && e.ExitFunc == exitFunc && isnil(e.conn) && e.aclCache == nil && e.OverrideAddr == "" && e.OriginalAddr == "" && !e.closed && e.D != nil && e.Last != nil

//@ structural C08: allocs udpSessionEntry in newUDPSessionEntry
//@ structural C08: refs newUDPSessionEntry in (*udpSessionManager).feed
//@ structural C08: stores udpSessionEntry.IO in newUDPSessionEntry
//@ structural C08: stores udpSessionEntry.DialFunc in newUDPSessionEntry
//@ structural C08: uses udpSessionEntry.aclCache in (*udpSessionEntry).Feed | (*udpSessionEntry).checkAddr
//@ structural C08: stores udpSessionEntry.OverrideAddr in (*udpSessionEntry).initConn
//@ structural C08: stores udpSessionEntry.OriginalAddr in (*udpSessionEntry).initConn
//@ structural C08: stores udpSessionEntry.conn in (*udpSessionEntry).initConn

// the session table (C08): a new session is created through newUDPSessionEntry with the
// datagram's session ID and the manager's own IO (whose policy the entry then enforces)
//@ guard call newUDPSessionEntry(id, io, df, ef) in (*udpSessionManager).feed
//@   props C08 C07
//@   requires id == msg.SessionID && io == m.io
// (C07) a session is only ever added under a free ID: an entry that is still in the table is
// never replaced - its exit callback removes the table's entry for its ID, which must be itself
//@ guard mapinsert udpSessionManager.m(obj, k) in (*udpSessionManager).feed
//@   props C07
//@   requires obj == m && k == msg.SessionID && m.m[k] == nil
//@ func (*udpSessionManager).feed
//@   props C08 C07
//@   nonil
//@   requires msg != nil && m.m != nil
//@   modifies any

// ---------------------------------------------------------------------------
// One direction of the TCP relay (C06). Source and sink are the byte-source / byte-sink
// models of io.spec: a read may fail or come up short at any point, a write may fail.
// copyBufferLog forwards what it reads, in order, nothing else; every chunk is offered to the
// logger before it is written, exactly with its length; a veto writes nothing of that chunk.
//@ ghost var logSum Int
//@ ghost var lastLogN Int
//@ ghost var lastLogOK Bool
//@ fnfield copyBufferLog.log(n) (ok)
//@ hook after call copyBufferLog.log(n) (ok) in copyBufferLog
//@   update logSum = logSum + ite(ok, n, 0)
//@   update lastLogN = n
//@   update lastLogOK = ok
//@ guard call io.Writer.Write(w, p) in copyBufferLog
//@   props C06
//@   requires w == dst && lastLogOK && lastLogN == len(p) && len(p) > 0
// the pool hands out pointers to 32 KiB buffers (it is filled only by its New and by the Put below)
//@ axiom POOL_BUF (x any): tagof(x) == typetag("*[]byte") && payload(x) != 0 && len(*ptrof(x, "*[]byte")) == 32768
//@ hook after call (*Pool).Get(p) (x) in copyBufferLog
//@   use POOL_BUF(x)
//@ spec func cSrc(src) = src(payload(src))
//@ spec func cSnk(dst) = snk(payload(dst))
//@ func copyBufferLog
//@   props C06
//@   requires !isnil(dst) && !isnil(src) && log != nil
//@   ensures sel(wlen, cSnk(dst)) - old(sel(wlen, cSnk(dst))) <= sel(rpos, cSrc(src)) - old(sel(rpos, cSrc(src)))
//@   ensures forall(i, 0, sel(wlen, cSnk(dst)) - old(sel(wlen, cSnk(dst))), sel(wdata, cSnk(dst), old(sel(wlen, cSnk(dst))) + i) == sel(rdata, cSrc(src), old(sel(rpos, cSrc(src))) + i))
//@   ensures isnil(ret) ==> sel(wlen, cSnk(dst)) - old(sel(wlen, cSnk(dst))) == sel(rpos, cSrc(src)) - old(sel(rpos, cSrc(src)))
//@   ensures sel(wlen, cSnk(dst)) - old(sel(wlen, cSnk(dst))) <= logSum - old(logSum) && logSum - old(logSum) <= sel(wlen, cSnk(dst)) - old(sel(wlen, cSnk(dst))) + 32768
//@   modifies any
//@   loop 0
//@     invariant len(buf) == 32768 && !isnil(dst) && !isnil(src) && log != nil
//@     invariant sel(wlen, cSnk(dst)) - old(sel(wlen, cSnk(dst))) == sel(rpos, cSrc(src)) - old(sel(rpos, cSrc(src))) && sel(rpos, cSrc(src)) >= old(sel(rpos, cSrc(src)))
//@     invariant logSum - old(logSum) == sel(rpos, cSrc(src)) - old(sel(rpos, cSrc(src)))
//@     invariant forall(i, 0, sel(wlen, cSnk(dst)) - old(sel(wlen, cSnk(dst))), sel(wdata, cSnk(dst), old(sel(wlen, cSnk(dst))) + i) == sel(rdata, cSrc(src), old(sel(rpos, cSrc(src))) + i))

// ---------------------------------------------------------------------------
// Session sockets (C07), per entry, as a sequential object under connLock: connOpen[e] says
// the socket obtained by e's dial is open. It is closed at most once, only by CloseWithErr,
// never dialled after the session exited, and a closed session has no open socket.
//@ ghost var connOpen (Array Int Bool)
// (the dialled socket is private to the initConn invocation - connPrivOpen - until it is
// installed in e.conn; every invocation ends with its socket installed or closed)
//@ ghost var connPrivOpen Bool
//@ ghost var connPriv Int
//@ hook call udpSessionEntry.DialFunc(this, addr, data) in (*udpSessionEntry).initConn
//@   update connPrivOpen = false
//@ hook after call udpSessionEntry.DialFunc(this, addr, data) (conn, actual, err) in (*udpSessionEntry).initConn
//@   when isnil(err)
//@   update connPriv = payload(conn)
//@   update connPrivOpen = true
//@ hook store udpSessionEntry.conn(obj, v) in (*udpSessionEntry).initConn
//@   when connPrivOpen && payload(v) == connPriv
//@   update connOpen = upd(connOpen, obj, true)
//@   update connPrivOpen = false
//@ guard call udpSessionEntry.DialFunc(this, addr, data) in (*udpSessionEntry).initConn
//@   props C07
//@   requires !e.closed && isnil(e.conn) && !selBool(connOpen, e)
//@ hook call UDPConn.Close(c) in (*udpSessionEntry).CloseWithErr
//@   update connOpen = upd(connOpen, e, false)
//@ guard call UDPConn.Close(c) in (*udpSessionEntry).CloseWithErr
//@   props C07
//@   requires c == e.conn && selBool(connOpen, e)
//@ guard call udpSessionEntry.ExitFunc(this, err2) in (*udpSessionEntry).CloseWithErr
//@   props C07
//@   requires e.closed && !selBool(connOpen, e)
//@ spec func sockInv(e) = (selBool(connOpen, e) ==> !isnil(e.conn) && !e.closed) && (!isnil(e.conn) && !e.closed ==> selBool(connOpen, e))
//@ func (*udpSessionEntry).CloseWithErr
//@   props C07 C08
//@   nonil
//@   ensures e.closed && !selBool(connOpen, e)
//@   modifies e.closed, connOpen
//@ structural C07: stores udpSessionEntry.closed in (*udpSessionEntry).CloseWithErr value true
//@ structural C07: calls UDPConn.Close in (*udpSessionEntry).CloseWithErr

// interference: other goroutines (Feed vs. the reply loop vs. the sweeper) may change these between critical sections
// (connOpen[e] itself is not havocked: sessions are fed by the manager's single receive loop, so
// no other goroutine installs a socket into e between two critical sections of Feed/initConn;
// only `closed` and a close of the socket can change under it, which sockInv ties to connOpen)
//@ monitor udpSessionEntry.connLock: conn, closed
