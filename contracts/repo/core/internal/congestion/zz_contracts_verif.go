//go:build verif

// Contracts for the deductive verifier under /verif (comment-only; no declarations).
package congestion

//@ ghost var ccInstalls Int
//@ ghost var ccInstalledRef Int
//@ ghost var newBrutalRef Int
//@ ghost var newBrutalBps Int
//@ ghost var newBrutalDLC Bool
//@ ghost var newBbrRef Int
//@ ghost var newBbrProfile Str

//@ hook after call brutal.NewBrutalSender(bps, dlc) (s)
//@   update newBrutalRef = s
//@   update newBrutalBps = bps
//@   update newBrutalDLC = dlc
//@ hook after call bbr.NewBbrSender(clock, size, profile) (s)
//@   update newBbrRef = s
//@   update newBbrProfile = profile
//@ hook call (*Conn).SetCongestionControl(c, cc)
//@   update ccInstalls = ccInstalls + 1
//@   update ccInstalledRef = payload(cc)

//@ structural C10: calls (*Conn).SetCongestionControl in UseBrutal | UseBBR

// UseBrutal installs, on the given connection, a Brutal sender built for
// exactly the given rate.
//@ guard call (*Conn).SetCongestionControl(c, cc) in UseBrutal
//@   requires c == conn && payload(cc) == newBrutalRef && newBrutalRef != 0 && newBrutalBps == tx && newBrutalDLC == disableLossCompensation
//@ func UseBrutal
//@   props C10
//@   nonil
//@   ensures ccInstalls == old(ccInstalls) + 1 && ccInstalledRef == newBrutalRef && newBrutalRef != 0 && newBrutalBps == tx && newBrutalDLC == disableLossCompensation
//@   modifies ccInstalls, ccInstalledRef, newBrutalRef, newBrutalBps, newBrutalDLC

//@ guard call (*Conn).SetCongestionControl(c, cc) in UseBBR
//@   requires c == conn && payload(cc) == newBbrRef && newBbrRef != 0 && newBbrProfile == string(profile)
//@ func UseBBR
//@   props C10
//@   nonil
//@   ensures ccInstalls == old(ccInstalls) + 1 && ccInstalledRef == newBbrRef && newBbrRef != 0 && newBbrProfile == string(profile)
//@   modifies ccInstalls, ccInstalledRef, newBbrRef, newBbrProfile

// UseConfigured: reno keeps quic-go's default controller, anything else is BBR
// with the configured profile; never Brutal.
//@ func UseConfigured
//@   props C10
//@   nonil
//@   ensures congestionType == "reno" ==> ccInstalls == old(ccInstalls)
//@   ensures congestionType != "reno" ==> ccInstalls == old(ccInstalls) + 1 && ccInstalledRef == newBbrRef && newBbrProfile == bbrProfile
//@   ensures newBrutalRef == old(newBrutalRef)
//@   modifies ccInstalls, ccInstalledRef, newBbrRef, newBbrProfile

//@ func seedPacketSize
//@   props C10 C12
//@   ensures quicSize <= 0 ==> ret == byAddr
//@   ensures quicSize > 0 ==> ret == min(quicSize, byAddr)
