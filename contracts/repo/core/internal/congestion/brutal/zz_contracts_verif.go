//go:build verif

// Contracts for the deductive verifier under /verif (comment-only; no declarations).
package brutal

// The Brutal sender enforces exactly the rate it was built for (C10: "the rate
// reported is the rate enforced"). The last clause is taken from the property
// statement and fails for bps >= 2^63 on this tree (known finding F5); it comes
// last so that nothing else is proved from it.
//@ func NewBrutalSender
//@   props C10
//@   ensures ret != nil && fresh(ret)
//@   ensures bps <= 9223372036854775807 ==> ret.bps == bps
//@   ensures ret.disableLossCompensation == disableLossCompensation && ret.ackRate == 1.0 && ret.maxDatagramSize == 1280
//@   ensures ret.bps == bps
