//go:build verif

// Contracts for the deductive verifier under /verif (comment-only; no declarations).
package brutal

// The Brutal sender enforces exactly the rate it was built for (C10: "the rate
// reported is the rate enforced"). The last clause is taken from the property
// statement and fails for bps >= 2^63 on this tree (known finding F5); it comes
// last so that nothing else is proved from it.
//@ func NewBrutalSender
//@   props C10
//@   ensures ret != nil && fresh(ret)
//@   ensures bps <= 9223372036854775807 ==> ret.bps == bps
//@   ensures ret.disableLossCompensation == disableLossCompensation && ret.ackRate == 1.0 && ret.maxDatagramSize == 1280 && ret.pacer != nil && ret.pacer.maxDatagramSize == 1280 && ret.pacer.lastSentTime == 0
//@   ensures ret.bps == bps

// ---------------------------------------------------------------------------
// C11: loss compensation and the congestion window of the Brutal sender.
// The sampling window at second ts is the slots stamped ts-5 .. ts; acks / losses are their
// sums; the factor is 1 below 50 samples, else acked/(acked+lost) floored at 0.8.
// Assumption (slotsBelow): fewer than 2^59 packets have been counted in a slot when an event
// arrives (the uint64 sums do not wrap).
//@ spec func inWin(b, i, ts) = b.pktInfoSlots[i].Timestamp >= ts - 5
//@ spec func ackAt(b, i, ts) = ite(inWin(b, i, ts), b.pktInfoSlots[i].AckCount, 0)
//@ spec func lossAt(b, i, ts) = ite(inWin(b, i, ts), b.pktInfoSlots[i].LossCount, 0)
// the sums over the first k of the five slots (k = 5: the whole ring)
//@ spec func ackUpTo(b, ts, k) = ite(k >= 1, ackAt(b, 0, ts), 0) + ite(k >= 2, ackAt(b, 1, ts), 0) + ite(k >= 3, ackAt(b, 2, ts), 0) + ite(k >= 4, ackAt(b, 3, ts), 0) + ite(k >= 5, ackAt(b, 4, ts), 0)
//@ spec func lossUpTo(b, ts, k) = ite(k >= 1, lossAt(b, 0, ts), 0) + ite(k >= 2, lossAt(b, 1, ts), 0) + ite(k >= 3, lossAt(b, 2, ts), 0) + ite(k >= 4, lossAt(b, 3, ts), 0) + ite(k >= 5, lossAt(b, 4, ts), 0)
//@ spec func factor(a, l) = ite(a + l < 50, 1.0, ite(float64(a) / float64(a + l) < 0.8, 0.8, float64(a) / float64(a + l)))
//@ spec func slotBelow(b, i, B) = b.pktInfoSlots[i].AckCount < B && b.pktInfoSlots[i].LossCount < B
//@ spec func slotsBelow(b, B) = slotBelow(b, 0, B) && slotBelow(b, 1, B) && slotBelow(b, 2, B) && slotBelow(b, 3, B) && slotBelow(b, 4, B)
//@ objinv BrutalSender: this.ackRate >= 0.8 && this.ackRate <= 1.0

//@ func (*BrutalSender).debugPrint
//@   props C11
//@   trusted
//@ func (*BrutalSender).updateAckRate
//@   props C11
//@   nonil
//@   requires slotsBelow(b, 1<<60) && currentTimestamp >= 0
//@   ensures b.disableLossCompensation ==> b.ackRate == 1.0
//@   ensures !b.disableLossCompensation ==> b.ackRate == factor(ackUpTo(b, currentTimestamp, 5), lossUpTo(b, currentTimestamp, 5))
//@   modifies b.ackRate, b.lastAckPrintTimestamp
//@   loop 0
//@     invariant -1 <= rangeindex && rangeindex < 5
//@     invariant ackCount == ackUpTo(b, currentTimestamp, rangeindex + 1) && lossCount == lossUpTo(b, currentTimestamp, rangeindex + 1)

// One congestion event: the batch is added to the slot of the event's second (a slot
// stamped with another second is restarted), no other slot changes, and the factor is
// recomputed over the window ending at that second.
//@ spec func sec(t) = t / 1000000000
//@ func (*BrutalSender).OnCongestionEventEx
//@   props C11
//@   nonil
//@   requires eventTime >= 0 && slotsBelow(b, 1<<59)
//@   ensures b.pktInfoSlots[sec(eventTime) % 5].Timestamp == sec(eventTime)
//@   ensures old(b.pktInfoSlots[sec(eventTime) % 5].Timestamp) == sec(eventTime) ==> b.pktInfoSlots[sec(eventTime) % 5].AckCount == old(b.pktInfoSlots[sec(eventTime) % 5].AckCount) + len(ackedPackets) && b.pktInfoSlots[sec(eventTime) % 5].LossCount == old(b.pktInfoSlots[sec(eventTime) % 5].LossCount) + len(lostPackets)
//@   ensures old(b.pktInfoSlots[sec(eventTime) % 5].Timestamp) != sec(eventTime) ==> b.pktInfoSlots[sec(eventTime) % 5].AckCount == len(ackedPackets) && b.pktInfoSlots[sec(eventTime) % 5].LossCount == len(lostPackets)
//@   ensures forall(i, 0, 5, i != sec(eventTime) % 5 ==> b.pktInfoSlots[i].Timestamp == old(b.pktInfoSlots[i].Timestamp) && b.pktInfoSlots[i].AckCount == old(b.pktInfoSlots[i].AckCount) && b.pktInfoSlots[i].LossCount == old(b.pktInfoSlots[i].LossCount))
//@   ensures b.disableLossCompensation ==> b.ackRate == 1.0
//@   ensures !b.disableLossCompensation ==> b.ackRate == factor(ackUpTo(b, sec(eventTime), 5), lossUpTo(b, sec(eventTime), 5))
//@   modifies b.ackRate, b.lastAckPrintTimestamp, b.pktInfoSlots

// The sender and its pacer agree on the datagram size (so the budget the pacer promises at
// its wake-up time is the budget HasPacingBudget asks for), and the window is never below
// one datagram. Assumption about quic-go: datagram sizes are between 1 and 10240 bytes.
//@ objinv BrutalSender: this.pacer != nil && this.maxDatagramSize == this.pacer.maxDatagramSize && this.maxDatagramSize >= 1 && this.maxDatagramSize <= 10240
//@ iface congestion.RTTStatsProvider.SmoothedRTT(p) (d)
//@   pure
//@ extern func (time.Duration).Seconds(d) (s)
//@   pure
//@ func (*BrutalSender).GetCongestionWindow
//@   props C11
//@   nonil
//@   ensures ret >= b.maxDatagramSize
//@ func (*BrutalSender).CanSend
//@   props C11
//@   nonil
//@   ensures bytesInFlight <= b.maxDatagramSize ==> ret
//@ func (*BrutalSender).SetMaxDatagramSize
//@   props C11
//@   nonil
//@   requires size >= 1 && size <= 10240
//@   ensures b.maxDatagramSize == size && b.pacer.maxDatagramSize == size
//@   modifies b.maxDatagramSize, b.pacer.maxDatagramSize
//@ func (*BrutalSender).HasPacingBudget
//@   props C11
//@   nonil
//@   requires now >= b.pacer.lastSentTime && bw(b.pacer) * (now - b.pacer.lastSentTime) < 1<<63
//@   ensures ret == (budgetAt(b.pacer, now) >= b.maxDatagramSize)
//@ func (*BrutalSender).TimeUntilSend
//@   props C11
//@   nonil
//@   requires b.pacer.lastSentTime <= 1<<62
//@   ensures b.pacer.budgetAtLastSent >= b.maxDatagramSize ==> ret == 0
//@   ensures b.pacer.budgetAtLastSent < b.maxDatagramSize ==> ret == b.pacer.lastSentTime + max(1000000, ceilDiv(1000000000*(b.maxDatagramSize-b.pacer.budgetAtLastSent), bw(b.pacer)))
//@ func (*BrutalSender).OnPacketSent
//@   props C11
//@   nonil
//@   requires sentTime >= b.pacer.lastSentTime && bytes >= 0 && bw(b.pacer) * (sentTime - b.pacer.lastSentTime) < 1<<63
//@   ensures b.pacer.budgetAtLastSent == max(0, old(budgetAt(b.pacer, sentTime)) - bytes) && b.pacer.lastSentTime == sentTime
//@   modifies b.pacer.budgetAtLastSent, b.pacer.lastSentTime

// the pacer's rate: the configured rate divided by the factor, i.e. between rate and rate/0.8
//@ func NewBrutalSender$1
//@   props C11
// (bs is the captured variable's cell, allocated by NewBrutalSender: never nil)
//@   requires bs != nil && *bs != nil && (*bs).ackRate >= 0.8 && (*bs).ackRate <= 1.0 && (*bs).bps >= 0 && (*bs).bps < 1<<60
//@   ensures ret >= (*bs).bps && float64(ret) * 0.8 <= float64((*bs).bps)
