//go:build verif

// Contracts for the deductive verifier under /verif (comment-only; no declarations).
package bbr

//@ func NewBbrSender
//@   props C10 C01 C02 C15
//@   trusted
//@   ensures ret != nil && fresh(ret)
//@ func GetInitialPacketSize
//@   props C10 C01 C02 C15
//@   trusted

// ---------------------------------------------------------------------------
// C12 (in part): the ring buffer and the packet-number-indexed queue never reach one of
// their panics, for every sequence of operations (object invariant induction).
//@ spec func rlen(r) = ite(r.full, len(r.ring), ite(r.tailPos >= r.headPos, r.tailPos - r.headPos, r.tailPos - r.headPos + len(r.ring)))
//@ spec func rwf(r) = (len(r.ring) == 0 && r.headPos == 0 && r.tailPos == 0 && !r.full) || (0 <= r.headPos && r.headPos < len(r.ring) && 0 <= r.tailPos && r.tailPos < len(r.ring) && (r.full ==> r.headPos == r.tailPos))
//@ objinv RingBuffer: rwf(this)

//@ func (*RingBuffer).Len
//@   props C12
//@   nonil
//@   ensures ret == rlen(r) && 0 <= ret && ret <= len(r.ring)
//@ func (*RingBuffer).Empty
//@   props C12
//@   nonil
//@   ensures ret == (rlen(r) == 0)
//@ func (*RingBuffer).grow
//@   props C12
//@   nonil
//@   requires r.full || len(r.ring) == 0
//@   ensures rlen(r) == old(rlen(r)) && !r.full && len(r.ring) == max(1, 2 * old(len(r.ring))) && r.headPos == 0 && r.tailPos == old(len(r.ring)) && fresh(r.ring)
//@   modifies r.ring, r.headPos, r.tailPos, r.full
//@ func (*RingBuffer).PushBack
//@   props C12
//@   nonil
//@   ensures rlen(r) == old(rlen(r)) + 1 && (r.ring == old(r.ring) || fresh(r.ring))
//@   modifies r.ring, r.headPos, r.tailPos, r.full, elems(r.ring)
//@ func (*RingBuffer).PopFront
//@   props C12
//@   nonil
//@   requires rlen(r) > 0
//@   ensures rlen(r) == old(rlen(r)) - 1 && len(r.ring) == old(len(r.ring))
//@   modifies r.headPos, r.full, elems(r.ring)
//@ func (*RingBuffer).Offset
//@   props C12
//@   nonil
//@   requires 0 <= index && index < rlen(r)
//@   ensures ret != nil
//@ func (*RingBuffer).Front
//@   props C12
//@   nonil
//@   requires rlen(r) > 0
//@   ensures ret != nil
//@ func (*RingBuffer).Back
//@   props C12
//@   nonil
//@   requires rlen(r) > 0
//@   ensures ret != nil
//@ func (*RingBuffer).Clear
//@   props C12
//@   nonil
//@   ensures rlen(r) == 0 && len(r.ring) == old(len(r.ring))
//@   modifies r.headPos, r.tailPos, r.full, elems(r.ring)
//@ func (*RingBuffer).Init
//@   props C12
//@   nonil
//@   requires size >= 0 && r.headPos == 0 && r.tailPos == 0 && !r.full
//@   ensures len(r.ring) == size && rlen(r) == 0
//@   modifies r.ring

// The queue over the ring buffer. Invariant: the ring is well formed and the first packet
// number is -1 (invalid) or such that first + slots stays in range. Assumption about QUIC:
// packet numbers handed in are -1 or in [0, 2^62).
//@ spec func qinv(p) = rwf(p.entries) && p.firstPacket >= -1 && p.firstPacket + rlen(p.entries) <= (1<<62) + (1<<41)
//@ objinv packetNumberIndexedQueue: qinv(this)
//@ fnfield Remove.f(e)

//@ func newPacketNumberIndexedQueue
//@   props C12
//@   requires size >= 0
//@   ensures ret != nil && fresh(ret) && rlen(ret.entries) == 0 && ret.firstPacket == -1 && ret.numberOfPresentEntries == 0
//@ func (*packetNumberIndexedQueue).IsEmpty
//@   props C12
//@   nonil
//@   ensures ret == (p.numberOfPresentEntries == 0)
//@ func (*packetNumberIndexedQueue).NumberOfPresentEntries
//@   props C12
//@   nonil
//@   ensures ret == p.numberOfPresentEntries
//@ func (*packetNumberIndexedQueue).EntrySlotsUsed
//@   props C12
//@   nonil
//@   ensures ret == rlen(p.entries)
//@ func (*packetNumberIndexedQueue).FirstPacket
//@   props C12
//@   nonil
//@   ensures packetNumber == p.firstPacket
//@ func (*packetNumberIndexedQueue).LastPacket
//@   props C12
//@   nonil
//@   ensures p.numberOfPresentEntries == 0 ==> packetNumber == -1
//@   ensures p.numberOfPresentEntries != 0 ==> packetNumber == p.firstPacket + rlen(p.entries) - 1
//@ func (*packetNumberIndexedQueue).getEntryWraper
//@   props C12
//@   nonil
//@   requires packetNumber >= -1 && packetNumber < 1<<62
//@ func (*packetNumberIndexedQueue).GetEntry
//@   props C12
//@   nonil
//@   requires packetNumber >= -1 && packetNumber < 1<<62
//@ func (*packetNumberIndexedQueue).clearup
//@   props C12
//@   nonil
//@   ensures rlen(p.entries) <= old(rlen(p.entries)) && (rlen(p.entries) == 0 ==> p.firstPacket == -1)
//@   modifies p.firstPacket, p.entries.headPos, p.entries.full, elems(p.entries.ring)
//@   loop 0
//@     invariant qinv(p) && p.entries.ring == old(p.entries.ring) && rlen(p.entries) <= old(rlen(p.entries))
//@ func (*packetNumberIndexedQueue).Remove
//@   props C12
//@   nonil
//@   requires packetNumber >= -1 && packetNumber < 1<<62
//@   modifies any
//@ func (*packetNumberIndexedQueue).RemoveUpTo
//@   props C12
//@   nonil
//@   requires packetNumber >= -1 && packetNumber < 1<<62
//@   ensures rlen(p.entries) <= old(rlen(p.entries))
//@   modifies p.firstPacket, p.numberOfPresentEntries, p.entries.headPos, p.entries.full, elems(p.entries.ring)
//@   loop 0
//@     invariant qinv(p) && p.entries.ring == old(p.entries.ring) && rlen(p.entries) <= old(rlen(p.entries))
//@ func (*packetNumberIndexedQueue).Emplace
//@   props C12
//@   nonil
//@   requires packetNumber >= -1 && packetNumber < 1<<62
//@   ensures ret ==> rlen(p.entries) >= 1
//@   modifies p.numberOfPresentEntries, p.firstPacket, p.entries.ring, p.entries.headPos, p.entries.tailPos, p.entries.full, elems(p.entries.ring)
//@   loop 0
//@     invariant (p.entries.ring == old(p.entries.ring) || fresh(p.entries.ring))
//@     invariant rwf(p.entries) && 0 <= i && i <= gap && rlen(p.entries) == old(rlen(p.entries)) + i && p.firstPacket == old(p.firstPacket) && p.numberOfPresentEntries == old(p.numberOfPresentEntries)

// ---------------------------------------------------------------------------
// C12 (in part): the clamps. After every window computation outside PROBE_RTT the congestion
// window lies between the minimum (four datagrams) and the maximum window; the recovery
// window is at least the minimum; the bandwidth handed to the pacer is at least 64 KB/s.
// The float expressions feeding these clamps are arbitrary as far as the proofs go.
// Helper summaries: the getters below read the sender only.
//@ func (*bandwidthSampler).MaxAckHeight
//@   props C12
//@   trusted
//@ func (*bandwidthSampler).TotalBytesAcked
//@   props C12
//@   nonil
//@   ensures ret == b.totalBytesAcked
//@ func (*bbrSender).getTargetCongestionWindow
//@   props C12
//@   trusted
//@   ensures ret >= b.minCongestionWindow
//@ func (*bbrSender).PacingRate
//@   props C12
//@   trusted
//@ func minCongestionWindowForMaxDatagramSize
//@   props C12
//@   nowrap
//@   requires maxDatagramSize >= 0 && maxDatagramSize <= 1<<40
//@   ensures ret == 4 * maxDatagramSize
//@ func (*bbrSender).probeRttCongestionWindow
//@   props C12
//@   nonil
//@   ensures ret == b.minCongestionWindow

//@ func (*bbrSender).calculateCongestionWindow
//@   props C12
//@   nonil
//@   requires b.sampler != nil && b.minCongestionWindow <= b.maxCongestionWindow
//@   ensures b.mode != 3 ==> b.minCongestionWindow <= b.congestionWindow && b.congestionWindow <= b.maxCongestionWindow
//@   ensures b.mode == 3 ==> b.congestionWindow == old(b.congestionWindow)
//@   modifies b.congestionWindow
//@ func (*bbrSender).calculateRecoveryWindow
//@   props C12
//@   nonil
//@   ensures b.recoveryState != 0 ==> b.recoveryWindow >= b.minCongestionWindow
//@   ensures b.recoveryState == 0 ==> b.recoveryWindow == old(b.recoveryWindow)
//@   modifies b.recoveryWindow
//@ func (*bbrSender).bandwidthForPacer
//@   props C12
//@   nonil
//@   ensures ret >= 65536
//@ func (*bbrSender).GetCongestionWindow
//@   props C12
//@   nonil
//@   ensures b.mode == 3 ==> ret == b.minCongestionWindow
//@   ensures b.mode != 3 && b.recoveryState == 0 ==> ret == b.congestionWindow
//@   ensures b.mode != 3 && b.recoveryState != 0 ==> ret == min(b.congestionWindow, b.recoveryWindow)

// growing the datagram size keeps the window bounds ordered (assumption about QUIC: the size
// never shrinks - the code panics otherwise - and stays within 1..65535; windows below 2^40)
//@ func scaleByteWindowForDatagramSize
//@   props C12
//@   requires window >= 0 && window <= 1<<40 && oldMaxDatagramSize >= 1 && newMaxDatagramSize >= oldMaxDatagramSize && newMaxDatagramSize <= 65535
//@   ensures ret >= window && (window >= 4 * oldMaxDatagramSize ==> ret >= 4 * newMaxDatagramSize)
//@   ensures ret == ite(oldMaxDatagramSize == newMaxDatagramSize, window, window * newMaxDatagramSize / oldMaxDatagramSize)
//@ spec func wsmall(w) = 0 <= w && w <= 1<<40
//@ spec func wpre(b) = b.maxDatagramSize >= 1 && wsmall(b.initialCongestionWindow) && wsmall(b.maxCongestionWindow) && wsmall(b.cwndToCalculateMinPacingRate) && wsmall(b.maxCongestionWindowWithNetworkParametersAdjusted) && b.maxCongestionWindow >= 4 * b.maxDatagramSize && b.initialCongestionWindow >= 4 * b.maxDatagramSize && b.initialCongestionWindow <= b.maxCongestionWindow
//@ func (*bbrSender).rescalePacketSizedWindows
//@   props C12
//@   nonil
//@   requires wpre(b) && maxDatagramSize >= b.maxDatagramSize && maxDatagramSize <= 65535
//@   ensures b.maxDatagramSize == maxDatagramSize && b.minCongestionWindow == 4 * maxDatagramSize && b.maxCongestionWindow >= b.minCongestionWindow
//@   ensures b.maxCongestionWindow >= old(b.maxCongestionWindow) && b.initialCongestionWindow >= old(b.initialCongestionWindow)
//@   ensures b.initialCongestionWindow >= b.minCongestionWindow && b.initialCongestionWindow <= b.maxCongestionWindow
//@   modifies b.maxDatagramSize, b.initialCongestionWindow, b.maxCongestionWindow, b.minCongestionWindow, b.cwndToCalculateMinPacingRate, b.maxCongestionWindowWithNetworkParametersAdjusted
//@ func (*bbrSender).debugPrint
//@   props C12
//@   trusted
//@ func (*bbrSender).SetMaxDatagramSize
//@   props C12
//@   nonil
//@   requires wpre(b) && s >= b.maxDatagramSize && s <= 65535 && b.pacer != nil
//@   ensures b.maxDatagramSize == s && b.minCongestionWindow == 4 * s && b.minCongestionWindow <= b.maxCongestionWindow
//@   ensures b.minCongestionWindow <= b.congestionWindow && b.congestionWindow <= b.maxCongestionWindow
//@   ensures b.minCongestionWindow <= b.recoveryWindow && b.recoveryWindow <= b.maxCongestionWindow
//@   ensures b.pacer.maxDatagramSize == s
//@   modifies b.maxDatagramSize, b.initialCongestionWindow, b.maxCongestionWindow, b.minCongestionWindow, b.cwndToCalculateMinPacingRate, b.maxCongestionWindowWithNetworkParametersAdjusted, b.congestionWindow, b.recoveryWindow, b.pacer.maxDatagramSize

// bookkeeping (the local half of "proportional to the packets in flight"): every congestion
// event prunes the sampler's per-packet state - the call is on every path through the handler -
// and nothing else removes entries
//@ structural C12: always (*bandwidthSampler).RemoveObsoletePackets in (*bbrSender).OnCongestionEventEx
