//go:build verif

// Contracts for the deductive verifier under /verif (comment-only; no declarations).
package bbr

//@ func NewBbrSender
//@   props C10 C01 C02 C15
//@   trusted
//@   ensures ret != nil && fresh(ret)
//@ func GetInitialPacketSize
//@   props C10 C01 C02 C15
//@   trusted
