//go:build verif

// Contracts for the deductive verifier under /verif (comment-only; no declarations).
package common

//@ fnfield Pacer.getBandwidth(this) (bw)
//@   pure
//@   ensures bw >= 1 && bw <= 2000000000000
//@
//@ spec func bw(p) = Pacer_getBandwidth(p)
//@ spec func maxBurst(p) = max(4000000*bw(p)/1000000000, 10*p.maxDatagramSize)
//@ spec func budgetAt(p, now) = ite(p.lastSentTime == 0, maxBurst(p), min(maxBurst(p), p.budgetAtLastSent + bw(p)*(now-p.lastSentTime)/1000000000))
//@ spec func ceilDiv(a, b) = ite(a % b > 0, a/b + 1, a/b)
//@
//@ objinv Pacer: this.budgetAtLastSent >= 0 && this.budgetAtLastSent <= 1<<62
//@ objinv Pacer: this.maxDatagramSize >= 1 && this.maxDatagramSize <= 65535
//@ objinv Pacer: this.lastSentTime >= 0
//@
//@ func NewPacer
//@   props C11 C10
//@   ensures ret != nil && fresh(ret) && ret.budgetAtLastSent == 12800 && ret.maxDatagramSize == 1280 && ret.lastSentTime == 0
//@
//@ func (*Pacer).maxBurstSize
//@   props C11 C12
//@   nowrap
//@   ensures ret == maxBurst(this)
//@
//@ func (*Pacer).Budget
//@   props C11 C12
//@   nowrap
//@   requires now >= this.lastSentTime
//@   requires bw(this) * (now - this.lastSentTime) < 1<<63
//@   ensures ret == budgetAt(this, now)
//@   ensures ret >= 0 && ret <= maxBurst(this)
//@
//@ func (*Pacer).SentPacket
//@   props C11 C12
//@   nowrap
//@   requires sendTime >= this.lastSentTime && size >= 0
//@   requires bw(this) * (sendTime - this.lastSentTime) < 1<<63
//@   ensures this.budgetAtLastSent == max(0, old(budgetAt(this, sendTime)) - size)
//@   ensures this.lastSentTime == sendTime
//@   modifies this.budgetAtLastSent, this.lastSentTime
//@
//@ func (*Pacer).TimeUntilSend
//@   props C11 C12
//@   nowrap
//@   requires this.lastSentTime <= 1<<62
//@   ensures this.budgetAtLastSent >= this.maxDatagramSize ==> ret == 0
//@   ensures this.budgetAtLastSent < this.maxDatagramSize ==> ret == this.lastSentTime + max(1000000, ceilDiv(1000000000*(this.maxDatagramSize-this.budgetAtLastSent), bw(this)))
//@
//@ func (*Pacer).SetMaxDatagramSize
//@   props C11 C12
//@   requires s >= 1 && s <= 65535
//@   ensures this.maxDatagramSize == s
//@   modifies this.maxDatagramSize
//@
//@ lemma WAKE C11: forall(B, forall(mds, forall(bw, forall(last, 0 <= B && B < mds && mds <= 65535 && 1 <= bw && bw <= 2000000000000 && last >= 0 ==> min(max(4000000*bw/1000000000, 10*mds), B + bw*(last + max(1000000, ceilDiv(1000000000*(mds-B), bw)) - last)/1000000000) >= mds))))
