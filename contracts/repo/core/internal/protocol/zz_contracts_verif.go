//go:build verif

// Contracts for the deductive verifier under /verif (comment-only; no declarations).
package protocol

//@ spec func vlen(x) = ite(x <= 63, 1, ite(x <= 16383, 2, ite(x <= 1073741823, 4, 8)))
//@ spec func hdr(m) = 8 + vlen(len(m.Addr)) + len(m.Addr)
//@
//@ func (*UDPMessage).HeaderSize
//@   props C05 C03
//@   nowrap
//@   ensures ret == hdr(this)
//@
//@ func (*UDPMessage).Size
//@   props C05 C03
//@   nowrap
//@   ensures ret == hdr(this) + len(this.Data)

// ---------------------------------------------------------------------------
// HTTP header codec (C10, C02). Header maps are modelled by the ghost array hdr
// (see /verif/contracts/extern/nethttp.spec); strconv by uninterpreted functions
// with the documented round-trip axioms (strconv.spec).

//@ spec func kAuth() = ckey("Hysteria-Auth")
//@ spec func kUDP() = ckey("Hysteria-UDP")
//@ spec func kRX() = ckey("Hysteria-CC-RX")
//@ spec func kPad() = ckey("Hysteria-Padding")
//@ axiom CKEY_DISTINCT: kAuth() != kUDP() && kAuth() != kRX() && kAuth() != kPad() && kUDP() != kRX() && kUDP() != kPad() && kRX() != kPad()
//@
//@ spec func encRx(auto, rx) = ite(auto, "auto", fmtUint(rx))
//@ spec func decAuto(s) = s == "auto"
//@ spec func decRx(s) = ite(s == "auto", 0, ite(parseUintOK(s), parseUint(s), 0))
//@ spec func decUDP(s) = parseBoolOK(s) && parseBool(s)
//@
//@ spec func hdrOthersKept(h, k1, k2, k3) = forallStr(k, k != k1 && k != k2 && k != k3 ==> selStr(hdr, h, k) == old(selStr(hdr, h, k)))
//@     && forall(h2, h2 != h ==> sel(hdr, h2) == old(sel(hdr, h2)))

//@ func (padding).String
//@   props C10 C01 C02 C04
//@   trusted
//@   ensures len(ret) >= 0

//@ func AuthRequestFromHeader
//@   props C10 C01 C02
//@   ensures ret.Auth == selStr(hdr, h, kAuth())
//@   ensures parseUintOK(selStr(hdr, h, kRX())) ==> ret.Rx == parseUint(selStr(hdr, h, kRX()))
//@   ensures !parseUintOK(selStr(hdr, h, kRX())) ==> ret.Rx == 0 || ret.Rx == 18446744073709551615

//@ func AuthRequestToHeader
//@   props C10
//@   ensures selStr(hdr, h, kAuth()) == req.Auth
//@   ensures selStr(hdr, h, kRX()) == fmtUint(req.Rx)
//@   ensures hdrOthersKept(h, kAuth(), kRX(), kPad())
//@   modifies hdr

//@ func AuthResponseFromHeader
//@   props C10
//@   ensures ret.UDPEnabled == decUDP(selStr(hdr, h, kUDP()))
//@   ensures ret.RxAuto == decAuto(selStr(hdr, h, kRX()))
//@   ensures decAuto(selStr(hdr, h, kRX())) || parseUintOK(selStr(hdr, h, kRX())) ==> ret.Rx == decRx(selStr(hdr, h, kRX()))
//@   ensures !decAuto(selStr(hdr, h, kRX())) && !parseUintOK(selStr(hdr, h, kRX())) ==> ret.Rx == 0 || ret.Rx == 18446744073709551615

//@ func AuthResponseToHeader
//@   props C10 C01 C02
//@   ensures selStr(hdr, h, kUDP()) == fmtBool(resp.UDPEnabled)
//@   ensures selStr(hdr, h, kRX()) == encRx(resp.RxAuto, resp.Rx)
//@   ensures hdrOthersKept(h, kUDP(), kRX(), kPad())
//@   modifies hdr

//@ lemma RESP_RT C10: forall(rx, 0 <= rx && rx <= 18446744073709551615 ==> decRx(encRx(false, rx)) == rx && !decAuto(encRx(false, rx))) && decAuto(encRx(true, 0)) && decUDP(fmtBool(true)) && !decUDP(fmtBool(false))
