//go:build verif

// Contracts for the deductive verifier under /verif (comment-only; no declarations).
package protocol

//@ spec func vlen(x) = ite(x <= 63, 1, ite(x <= 16383, 2, ite(x <= 1073741823, 4, 8)))
//@ spec func hdr(m) = 8 + vlen(len(m.Addr)) + len(m.Addr)
//@
//@ func (*UDPMessage).HeaderSize
//@   props C05 C03
//@   nowrap
//@   ensures ret == hdr(this)
//@
//@ func (*UDPMessage).Size
//@   props C05 C03
//@   nowrap
//@   ensures ret == hdr(this) + len(this.Data)
