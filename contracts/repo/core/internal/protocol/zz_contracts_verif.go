//go:build verif

// Contracts for the deductive verifier under /verif (comment-only; no declarations).
package protocol

//@ spec func vlen(x) = ite(x <= 63, 1, ite(x <= 16383, 2, ite(x <= 1073741823, 4, 8)))
//@ spec func hdr(m) = 8 + vlen(len(m.Addr)) + len(m.Addr)
//@
//@ func (*UDPMessage).HeaderSize
//@   props C05 C03
//@   nowrap
//@   ensures ret == hdr(this)
//@
//@ func (*UDPMessage).Size
//@   props C05 C03
//@   nowrap
//@   ensures ret == hdr(this) + len(this.Data)

// ---------------------------------------------------------------------------
// HTTP header codec (C10, C02). Header maps are modelled by the ghost array hdr
// (see /verif/contracts/extern/nethttp.spec); strconv by uninterpreted functions
// with the documented round-trip axioms (strconv.spec).

//@ spec func kAuth() = ckey("Hysteria-Auth")
//@ spec func kUDP() = ckey("Hysteria-UDP")
//@ spec func kRX() = ckey("Hysteria-CC-RX")
//@ spec func kPad() = ckey("Hysteria-Padding")
//@ axiom CKEY_DISTINCT: kAuth() != kUDP() && kAuth() != kRX() && kAuth() != kPad() && kUDP() != kRX() && kUDP() != kPad() && kRX() != kPad()
//@
//@ spec func encRx(auto, rx) = ite(auto, "auto", fmtUint(rx))
//@ spec func decAuto(s) = s == "auto"
//@ spec func decRx(s) = ite(s == "auto", 0, ite(parseUintOK(s), parseUint(s), 0))
//@ spec func decUDP(s) = parseBoolOK(s) && parseBool(s)
//@
//@ spec func hdrOthersKept(h, k1, k2, k3) = forallStr(k, k != k1 && k != k2 && k != k3 ==> selStr(hdr, h, k) == old(selStr(hdr, h, k)))
//@     && forall(h2, h2 != h ==> sel(hdr, h2) == old(sel(hdr, h2)))

// the padding ranges the writers draw from (half-open [Min, Max)); established by the
// package initialiser and never stored to afterwards (globalinv obligations)
//@ globalinv C04 C10: authRequestPadding.Min == 256 && authRequestPadding.Max == 2048 && authResponsePadding.Min == 256 && authResponsePadding.Max == 2048
//@ globalinv C04 C10: tcpRequestPadding.Min == 64 && tcpRequestPadding.Max == 512 && tcpResponsePadding.Min == 128 && tcpResponsePadding.Max == 1024

//@ func (padding).String
//@   props C04 C10
//@   requires p.Min >= 0 && p.Max > p.Min && p.Max <= 1048576
//@   ensures len(ret) >= p.Min && len(ret) < p.Max

//@ func AuthRequestFromHeader
//@   props C10 C01 C02
//@   ensures ret.Auth == selStr(hdr, h, kAuth())
//@   ensures parseUintOK(selStr(hdr, h, kRX())) ==> ret.Rx == parseUint(selStr(hdr, h, kRX()))
//@   ensures !parseUintOK(selStr(hdr, h, kRX())) ==> ret.Rx == 0 || ret.Rx == 18446744073709551615

//@ func AuthRequestToHeader
//@   props C10
//@   ensures selStr(hdr, h, kAuth()) == req.Auth
//@   ensures selStr(hdr, h, kRX()) == fmtUint(req.Rx)
//@   ensures hdrOthersKept(h, kAuth(), kRX(), kPad())
//@   modifies hdr

//@ func AuthResponseFromHeader
//@   props C10
//@   ensures ret.UDPEnabled == decUDP(selStr(hdr, h, kUDP()))
//@   ensures ret.RxAuto == decAuto(selStr(hdr, h, kRX()))
//@   ensures decAuto(selStr(hdr, h, kRX())) || parseUintOK(selStr(hdr, h, kRX())) ==> ret.Rx == decRx(selStr(hdr, h, kRX()))
//@   ensures !decAuto(selStr(hdr, h, kRX())) && !parseUintOK(selStr(hdr, h, kRX())) ==> ret.Rx == 0 || ret.Rx == 18446744073709551615

//@ func AuthResponseToHeader
//@   props C10 C01 C02
//@   ensures selStr(hdr, h, kUDP()) == fmtBool(resp.UDPEnabled)
//@   ensures selStr(hdr, h, kRX()) == encRx(resp.RxAuto, resp.Rx)
//@   ensures hdrOthersKept(h, kUDP(), kRX(), kPad())
//@   modifies hdr

//@ lemma RESP_RT C10: forall(rx, 0 <= rx && rx <= 18446744073709551615 ==> decRx(encRx(false, rx)) == rx && !decAuto(encRx(false, rx))) && decAuto(encRx(true, 0)) && decUDP(fmtBool(true)) && !decUDP(fmtBool(false))

// ---------------------------------------------------------------------------
// Wire codec (C04, C05, C03). Byte sources follow the A-IO model of
// /verif/contracts/extern/io.spec.

// b[o:] starts with the minimal-width QUIC varint encoding of i
//@ spec func vputAt(b, o, i) = ite(i <= 63, b[o] == i,
//@     ite(i <= 16383, b[o] == (i>>8) + 64 && b[o+1] == i%256,
//@     ite(i <= 1073741823, b[o] == (i>>24) + 128 && b[o+1] == (i>>16)%256 && b[o+2] == (i>>8)%256 && b[o+3] == i%256,
//@         b[o] == (i>>56) + 192 && b[o+1] == (i>>48)%256 && b[o+2] == (i>>40)%256 && b[o+3] == (i>>32)%256
//@         && b[o+4] == (i>>24)%256 && b[o+5] == (i>>16)%256 && b[o+6] == (i>>8)%256 && b[o+7] == i%256)))

//@ func varintPut
//@   props C04 C05 C03 C15
//@   requires i <= 4611686018427387903 && len(b) >= vlen(i)
//@   ensures ret == vlen(i) && vputAt(b, 0, i)
//@   modifies b[0:vlen(i)]

// the same predicate over an abstract byte array (lemma VARINT_RT: what varintPut writes is what quicvarint.Read decodes)
//@ uf arrD(Int) Int
//@ spec func dputAt(o, i) = ite(i <= 63, arrD(o) == i,
//@     ite(i <= 16383, arrD(o) == (i>>8) + 64 && arrD(o+1) == i%256,
//@     ite(i <= 1073741823, arrD(o) == (i>>24) + 128 && arrD(o+1) == (i>>16)%256 && arrD(o+2) == (i>>8)%256 && arrD(o+3) == i%256,
//@         arrD(o) == (i>>56) + 192 && arrD(o+1) == (i>>48)%256 && arrD(o+2) == (i>>40)%256 && arrD(o+3) == (i>>32)%256
//@         && arrD(o+4) == (i>>24)%256 && arrD(o+5) == (i>>16)%256 && arrD(o+6) == (i>>8)%256 && arrD(o+7) == i%256)))
//@ spec func dbe2(p) = arrD(p)*256 + arrD(p+1)
//@ spec func dbe4(p) = arrD(p)*16777216 + arrD(p+1)*65536 + arrD(p+2)*256 + arrD(p+3)
//@ spec func dval(p) = ite(arrD(p) < 64, arrD(p), ite(arrD(p) < 128, dbe2(p) - 16384, ite(arrD(p) < 192, dbe4(p) - 2147483648, dbe4(p)*4294967296 + dbe4(p+4) - 13835058055282163712)))
//@ lemma VARINT_RT C04 C05: forall(o, forall(i, 0 <= i && i <= 4611686018427387903 && dputAt(o, i) ==> vw(arrD(o)) == vlen(i) && dval(o) == i))

// Serialize: -1 and nothing written when the buffer is too small; otherwise exactly
// Size() bytes: header fields big-endian, minimal varint address length, address, payload.
//@ func (*UDPMessage).Serialize
//@   props C05 C03 C15
//@   requires base(buf) != base(m.Data)
//@   ensures len(buf) < hdr(m) + len(m.Data) ==> ret == -1 && forall(k, 0, len(buf), buf[k] == old(buf[k]))
//@   ensures len(buf) >= hdr(m) + len(m.Data) ==> ret == hdr(m) + len(m.Data)
//@       && buf[0] == m.SessionID>>24 && buf[1] == (m.SessionID>>16)%256 && buf[2] == (m.SessionID>>8)%256 && buf[3] == m.SessionID%256
//@       && buf[4] == m.PacketID>>8 && buf[5] == m.PacketID%256 && buf[6] == m.FragID && buf[7] == m.FragCount
//@       && vputAt(buf, 8, len(m.Addr))
//@       && forall(k, 0, len(m.Addr), buf[8 + vlen(len(m.Addr)) + k] == m.Addr[k])
//@       && forall(k, 0, len(m.Data), buf[hdr(m) + k] == m.Data[k])
//@   modifies buf[0:len(buf)]

// ParseUDPMessage: total (never panics). It succeeds exactly when the input holds
// the 8 fixed bytes, a complete varint address length in 1..2048, that many
// address bytes and at least one payload byte; then the fields are the decoded
// header and Data is the tail of the input slice itself (no copy).
//@ spec func sbe2(b, p) = b[p]*256 + b[p+1]
//@ spec func sbe4(b, p) = b[p]*16777216 + b[p+1]*65536 + b[p+2]*256 + b[p+3]
//@ spec func sval(b, p) = ite(b[p] < 64, b[p], ite(b[p] < 128, sbe2(b, p) - 16384, ite(b[p] < 192, sbe4(b, p) - 2147483648, sbe4(b, p)*4294967296 + sbe4(b, p+4) - 13835058055282163712)))
//@ spec func udpOK(msg) = len(msg) >= 9 && len(msg) >= 8 + vw(msg[8]) && sval(msg, 8) >= 1 && sval(msg, 8) <= 2048 && len(msg) > 8 + vw(msg[8]) + sval(msg, 8)
//@ func ParseUDPMessage
//@   props C05 C03 C15 C17
//@   ensures isnil(ret1) == udpOK(msg)
//@   ensures !isnil(ret1) ==> ret0 == nil
//@   ensures isnil(ret1) ==> ret0 != nil && fresh(ret0)
//@   ensures isnil(ret1) ==> ret0.SessionID == sbe4(msg, 0) && ret0.PacketID == sbe2(msg, 4) && ret0.FragID == msg[6] && ret0.FragCount == msg[7]
//@   ensures isnil(ret1) ==> len(ret0.Addr) == sval(msg, 8)
//@   ensures isnil(ret1) ==> forall(k, 0, len(ret0.Addr), ret0.Addr[k] == msg[8 + vw(msg[8]) + k])
//@   ensures isnil(ret1) ==> base(ret0.Data) == base(msg) && off(ret0.Data) == off(msg) + 8 + vw(msg[8]) + sval(msg, 8)
//@   ensures isnil(ret1) ==> len(ret0.Data) == len(msg) - 8 - vw(msg[8]) - sval(msg, 8)
//@   modifies rpos, rlen, rdata, rbase, roff

// ---------------------------------------------------------------------------
// TCP request / response framing (C04).

//@ ghost var wcalls Int
//@ hook call Writer.Write(w2, b)
//@   update wcalls = wcalls + 1

// what the writer hands to its single Write call
//@ spec func reqFrameOK(b, addr) = len(b) >= 2 + vlen(len(addr)) + len(addr) + 1
//@     && vputAt(b, 0, 1025) && vputAt(b, 2, len(addr))
//@     && forall(k, 0, len(addr), b[2 + vlen(len(addr)) + k] == addr[k])
//@     && len(b) - (2 + vlen(len(addr)) + len(addr)) >= 65 && len(b) - (2 + vlen(len(addr)) + len(addr)) <= 513
//@     && vputAt(b, 2 + vlen(len(addr)) + len(addr), len(b) - (2 + vlen(len(addr)) + len(addr)) - vlen(len(b) - (2 + vlen(len(addr)) + len(addr)) - 1) )
//@ guard call Writer.Write(w2, b) in WriteTCPRequest
//@   props C04
//@   requires w2 == w && wcalls == old(wcalls) && len(b) == 2 + vlen(len(addr)) + len(addr) + vlen(padLenOf(b, addr)) + padLenOf(b, addr)
//@       && vputAt(b, 0, 1025) && vputAt(b, 2, len(addr)) && forall(k, 0, len(addr), b[2 + vlen(len(addr)) + k] == addr[k])
//@       && padLenOf(b, addr) >= 64 && padLenOf(b, addr) < 512 && vputAt(b, 2 + vlen(len(addr)) + len(addr), padLenOf(b, addr))
// the padding length is whatever varint the frame itself declares after the address
//@ spec func padLenOf(b, addr) = sval(b, 2 + vlen(len(addr)) + len(addr))

//@ func WriteTCPRequest
//@   props C04
//@   requires w != nil && len(addr) <= 1048576
//@   ensures wcalls == old(wcalls) + 1
//@   modifies wcalls, wdata, wlen

// ReadTCPRequest over a byte source r positioned at p: w1 = width of the address
// length L, then L address bytes, then the padding length P (width w2), then P bytes.
//@ spec func rqL(r, p) = vval(sdata(r), p)
//@ spec func rqW1(r, p) = vw(sel(sdata(r), p))
//@ spec func rqP(r, p) = vval(sdata(r), p + rqW1(r, p) + rqL(r, p))
//@ spec func rqW2(r, p) = vw(sel(sdata(r), p + rqW1(r, p) + rqL(r, p)))
//@ guard make uint8(n) in ReadTCPRequest
//@   props C04 C03
//@   requires n >= 1 && n <= 2048
//@ func ReadTCPRequest
//@   props C04 C03
//@   ensures isnil(ret1) ==> rqL(r, old(spos(r))) >= 1 && rqL(r, old(spos(r))) <= 2048 && rqP(r, old(spos(r))) <= 4096
//@   ensures isnil(ret1) ==> len(ret0) == rqL(r, old(spos(r))) && forall(k, 0, len(ret0), ret0[k] == sel(sdata(r), old(spos(r)) + rqW1(r, old(spos(r))) + k))
//@   ensures isnil(ret1) ==> spos(r) == old(spos(r)) + rqW1(r, old(spos(r))) + rqL(r, old(spos(r))) + rqW2(r, old(spos(r))) + rqP(r, old(spos(r)))
//@   ensures !isnil(ret1) ==> len(ret0) == 0
//@   ensures spos(r) >= old(spos(r)) && spos(r) <= old(spos(r)) + 8 + 2048 + 8 + 4096
//@   ensures reliable(src(payload(r))) && old(spos(r)) + rqW1(r, old(spos(r))) <= slenOf(r) && old(spos(r)) < slenOf(r) && (rqL(r, old(spos(r))) == 0 || rqL(r, old(spos(r))) > 2048) ==> !isnil(ret1) && spos(r) == old(spos(r)) + rqW1(r, old(spos(r)))
//@   ensures reliable(src(payload(r))) && old(spos(r)) < slenOf(r) && rqL(r, old(spos(r))) >= 1 && rqL(r, old(spos(r))) <= 2048 && rqP(r, old(spos(r))) <= 4096
//@       && old(spos(r)) + rqW1(r, old(spos(r))) + rqL(r, old(spos(r))) < slenOf(r)
//@       && old(spos(r)) + rqW1(r, old(spos(r))) + rqL(r, old(spos(r))) + rqW2(r, old(spos(r))) + rqP(r, old(spos(r))) <= slenOf(r) ==> isnil(ret1)
//@   modifies rpos

// TCPResponse: status byte, message length M (varint, width w1), M bytes, padding
// length P (varint, width w2), P bytes.
//@ spec func rsM(r, p) = vval(sdata(r), p + 1)
//@ spec func rsW1(r, p) = vw(sel(sdata(r), p + 1))
//@ spec func rsP(r, p) = vval(sdata(r), p + 1 + rsW1(r, p) + rsM(r, p))
//@ spec func rsW2(r, p) = vw(sel(sdata(r), p + 1 + rsW1(r, p) + rsM(r, p)))
//@ guard make uint8(n) in ReadTCPResponse
//@   props C04 C03
//@   requires n >= 1 && n <= 2048
//@ func ReadTCPResponse
//@   props C04 C03
//@   ensures isnil(ret2) ==> rsM(r, old(spos(r))) <= 2048 && rsP(r, old(spos(r))) <= 4096 && ret0 == (sel(sdata(r), old(spos(r))) == 0)
//@   ensures isnil(ret2) ==> len(ret1) == rsM(r, old(spos(r))) && forall(k, 0, len(ret1), ret1[k] == sel(sdata(r), old(spos(r)) + 1 + rsW1(r, old(spos(r))) + k))
//@   ensures isnil(ret2) ==> spos(r) == old(spos(r)) + 1 + rsW1(r, old(spos(r))) + rsM(r, old(spos(r))) + rsW2(r, old(spos(r))) + rsP(r, old(spos(r)))
//@   ensures !isnil(ret2) ==> ret0 == false && len(ret1) == 0
//@   ensures spos(r) >= old(spos(r)) && spos(r) <= old(spos(r)) + 1 + 8 + 2048 + 8 + 4096
//@   ensures reliable(src(payload(r))) && old(spos(r)) + 1 < slenOf(r) && old(spos(r)) + 1 + rsW1(r, old(spos(r))) <= slenOf(r) && rsM(r, old(spos(r))) > 2048 ==> !isnil(ret2) && spos(r) == old(spos(r)) + 1 + rsW1(r, old(spos(r)))
//@   ensures reliable(src(payload(r))) && old(spos(r)) + 1 < slenOf(r) && rsM(r, old(spos(r))) <= 2048 && rsP(r, old(spos(r))) <= 4096
//@       && old(spos(r)) + 1 + rsW1(r, old(spos(r))) + rsM(r, old(spos(r))) < slenOf(r)
//@       && old(spos(r)) + 1 + rsW1(r, old(spos(r))) + rsM(r, old(spos(r))) + rsW2(r, old(spos(r))) + rsP(r, old(spos(r))) <= slenOf(r) ==> isnil(ret2)
//@   modifies rpos

//@ spec func rspPadLen(b, msg) = sval(b, 1 + vlen(len(msg)) + len(msg))
//@ guard call Writer.Write(w2, b) in WriteTCPResponse
//@   props C04
//@   requires w2 == w && wcalls == old(wcalls) && len(b) == 1 + vlen(len(msg)) + len(msg) + vlen(rspPadLen(b, msg)) + rspPadLen(b, msg)
//@       && b[0] == ite(ok, 0, 1) && vputAt(b, 1, len(msg)) && forall(k, 0, len(msg), b[1 + vlen(len(msg)) + k] == msg[k])
//@       && rspPadLen(b, msg) >= 128 && rspPadLen(b, msg) < 1024 && vputAt(b, 1 + vlen(len(msg)) + len(msg), rspPadLen(b, msg))
//@ func WriteTCPResponse
//@   props C04
//@   requires w != nil && len(msg) <= 1048576
//@   ensures wcalls == old(wcalls) + 1
//@   modifies wcalls, wdata, wlen
