//go:build verif

// Contracts for the deductive verifier under /verif (comment-only; no declarations).
package frag

//@ spec func budget(m, maxSize) = maxSize - hdr(m)
//@ spec func nfrags(m, maxSize) = (len(m.Data) + budget(m, maxSize) - 1) / budget(m, maxSize)
//@ spec func fragOK(f, m, i, P, n) = f.SessionID == m.SessionID && f.PacketID == m.PacketID && f.Addr == m.Addr
//@     && f.FragID == i && f.FragCount == n
//@     && base(f.Data) == base(m.Data) && off(f.Data) == off(m.Data) + i*P
//@     && len(f.Data) == min(P, len(m.Data) - i*P) && len(f.Data) >= 1
//@
//@ func FragUDPMessage
//@   props C05 C03
//@   nowrap
//@   requires m != nil && maxSize >= 0
//@   ensures hdr(m) + len(m.Data) <= maxSize ==> len(ret) == 1 && ret[0].SessionID == m.SessionID && ret[0].PacketID == m.PacketID
//@       && ret[0].FragID == m.FragID && ret[0].FragCount == m.FragCount && ret[0].Addr == m.Addr && ret[0].Data == m.Data
//@   ensures hdr(m) + len(m.Data) > maxSize && budget(m, maxSize) <= 0 ==> ret == nil
//@   ensures hdr(m) + len(m.Data) > maxSize && budget(m, maxSize) > 0 && nfrags(m, maxSize) > 255 ==> ret == nil
//@   ensures hdr(m) + len(m.Data) > maxSize && budget(m, maxSize) > 0 && nfrags(m, maxSize) <= 255 ==>
//@       len(ret) == nfrags(m, maxSize) && forall(i, 0, nfrags(m, maxSize), fragOK(ret[i], m, i, budget(m, maxSize), nfrags(m, maxSize)) && hdr(m) + len(ret[i].Data) <= maxSize)
//@   loop 0
//@     invariant off == min(fragID*maxPayloadSize, len(fullPayload))
//@     invariant maxPayloadSize > 0 && fragCount == nfrags(m, maxSize)
//@     invariant fragCount*maxPayloadSize >= len(fullPayload) && (fragCount-1)*maxPayloadSize < len(fullPayload)
//@     invariant 0 <= fragID && fragID <= fragCount
//@     invariant maxPayloadSize == budget(m, maxSize) && fullPayload == m.Data && len(frags) == fragCount && fresh(frags)
//@     invariant forall(i, 0, fragID, fragOK(frags[i], m, i, maxPayloadSize, fragCount))
//@     decreases len(fullPayload) - off
