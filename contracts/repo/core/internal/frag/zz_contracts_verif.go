//go:build verif

// Contracts for the deductive verifier under /verif (comment-only; no declarations).
package frag

//@ spec func budget(m, maxSize) = maxSize - hdr(m)
//@ spec func nfrags(m, maxSize) = (len(m.Data) + budget(m, maxSize) - 1) / budget(m, maxSize)
//@ spec func fragOK(f, m, i, P, n) = f.SessionID == m.SessionID && f.PacketID == m.PacketID && f.Addr == m.Addr
//@     && f.FragID == i && f.FragCount == n
//@     && base(f.Data) == base(m.Data) && off(f.Data) == off(m.Data) + i*P
//@     && len(f.Data) == min(P, len(m.Data) - i*P) && len(f.Data) >= 1
//@
//@ func FragUDPMessage
//@   props C05 C03
//@   nowrap
//@   requires m != nil && maxSize >= 0
//@   ensures hdr(m) + len(m.Data) <= maxSize ==> len(ret) == 1 && ret[0].SessionID == m.SessionID && ret[0].PacketID == m.PacketID
//@       && ret[0].FragID == m.FragID && ret[0].FragCount == m.FragCount && ret[0].Addr == m.Addr && ret[0].Data == m.Data
//@   ensures hdr(m) + len(m.Data) > maxSize && budget(m, maxSize) <= 0 ==> ret == nil
//@   ensures hdr(m) + len(m.Data) > maxSize && budget(m, maxSize) > 0 && nfrags(m, maxSize) > 255 ==> ret == nil
//@   ensures hdr(m) + len(m.Data) > maxSize && budget(m, maxSize) > 0 && nfrags(m, maxSize) <= 255 ==>
//@       len(ret) == nfrags(m, maxSize) && forall(i, 0, nfrags(m, maxSize), fragOK(ret[i], m, i, budget(m, maxSize), nfrags(m, maxSize)) && hdr(m) + len(ret[i].Data) <= maxSize)
//@   loop 0
//@     invariant off == min(fragID*maxPayloadSize, len(fullPayload))
//@     invariant maxPayloadSize > 0 && fragCount == nfrags(m, maxSize)
//@     invariant fragCount*maxPayloadSize >= len(fullPayload) && (fragCount-1)*maxPayloadSize < len(fullPayload)
//@     invariant 0 <= fragID && fragID <= fragCount
//@     invariant maxPayloadSize == budget(m, maxSize) && fullPayload == m.Data && len(frags) == fragCount && fresh(frags)
//@     invariant forall(i, 0, fragID, fragOK(frags[i], m, i, maxPayloadSize, fragCount))
//@     decreases len(fullPayload) - off

// ---------------------------------------------------------------------------
// Reassembly. cntA / sumA count the non-nil entries of a reference array and sum
// a per-object quantity over them; the lemmas are proved by induction (their own
// obligations) and used as facts in Defragger.Feed.

//@ spec rec func cntA(a, lo, n) = ite(n <= 0, 0, cntA(a, lo, n-1) + ite(a[lo+n-1] == 0, 0, 1))
//@ spec rec func sumA(a, L, lo, n) = ite(n <= 0, 0, sumA(a, L, lo, n-1) + ite(a[lo+n-1] == 0, 0, L[a[lo+n-1]]))
//@ lemma CNT_BOUND C05 C03 C14 (a intarray, lo int, n int) induction n: 0 <= cntA(a, lo, n) && cntA(a, lo, n) <= n
//@ lemma CNT_FULL C05 C03 C14 (a intarray, lo int, n int) induction n: cntA(a, lo, n) == n ==> forall(i, 0, n, a[lo+i] != 0)
//@ lemma CNT_NIL C05 C03 C14 (a intarray, lo int, n int) induction n: forall(i, lo, lo+n, a[i] == 0) ==> cntA(a, lo, n) == 0
//@ lemma SUM_NIL C05 C03 C14 (a intarray, L intarray, lo int, n int) induction n: forall(i, lo, lo+n, a[i] == 0) ==> sumA(a, L, lo, n) == 0
//@ lemma CNT_UPD C05 C03 C14 (a intarray, lo int, n int, j int, v int) induction n: lo <= j && a[j] == 0 && v != 0 ==> cntA(upd(a, j, v), lo, n) == cntA(a, lo, n) + ite(j < lo + n, 1, 0)
//@ lemma SUM_UPD C05 C03 C14 (a intarray, L intarray, lo int, n int, j int, v int) induction n: lo <= j && a[j] == 0 && v != 0 ==> sumA(upd(a, j, v), L, lo, n) == sumA(a, L, lo, n) + ite(j < lo + n, L[v], 0)
//@ lemma SUM_NONNEG C05 C03 C14 (a intarray, L intarray, lo int, n int) induction n: forall(j, L[j] >= 0) ==> sumA(a, L, lo, n) >= 0
//@ lemma SUM_UB C05 C03 C14 (a intarray, L intarray, lo int, n int) induction n: forall(j, 0 <= L[j] && L[j] <= 1099511627776) ==> sumA(a, L, lo, n) <= n * 1099511627776
//@ lemma SUM_MONO C05 C03 C14 (a intarray, L intarray, lo int, i int, n int) induction n: forall(j, L[j] >= 0) && 0 <= i && i <= n ==> sumA(a, L, lo, i) <= sumA(a, L, lo, n)

//@ spec func dlen() = regionof("protocol.UDPMessage.Data.len")
//@ spec func fcnt(d) = cntA(row(d.frags), off(d.frags), len(d.frags))
//@ spec func fsum(d) = sumA(row(d.frags), dlen(), off(d.frags), len(d.frags))

// Representation invariant. While a message is incomplete every stored fragment
// belongs to it (same packet ID, same count, its own index) and size is the sum of
// their payload lengths; count is always the number of stored fragments.
//@ objinv Defragger: len(this.frags) <= 255 && this.count == fcnt(this)
//@ objinv Defragger: this.count < len(this.frags) ==> this.size == fsum(this)
//@ objinv Defragger: this.count < len(this.frags) ==> forall(i, 0, len(this.frags), this.frags[i] != nil ==> this.frags[i].PacketID == this.pktID && this.frags[i].FragCount == len(this.frags) && this.frags[i].FragID == i)

// Feed never panics; a message is returned only unfragmented (as is) or when all
// fragments of one packet ID and count have arrived, and then its payload length is
// the sum of theirs.
// proof hints: the counting lemmas instantiated where a fragment is stored
//@ hook elemstore *protocol.UDPMessage(s, i, v) in (*Defragger).Feed
//@   use CNT_NIL(row(s), off(s), len(s))
//@   use SUM_NIL(row(s), dlen(), off(s), len(s))
//@   use CNT_BOUND(row(s), off(s), len(s))
//@   use CNT_FULL(row(s), off(s), len(s))
//@   use CNT_UPD(row(s), off(s), len(s), off(s) + i, v)
//@   use SUM_UPD(row(s), dlen(), off(s), len(s), off(s) + i, v)
//@   use CNT_FULL(upd(row(s), off(s) + i, v), off(s), len(s))
//@   use SUM_NONNEG(upd(row(s), off(s) + i, v), dlen(), off(s), len(s))
//@   use SUM_NONNEG(row(s), dlen(), off(s), len(s))
//@   use SUM_UB(row(s), dlen(), off(s), len(s))

//@ func (*Defragger).Feed
//@   props C05 C03
//@   requires m != nil && d != nil
//@   use CNT_BOUND(row(d.frags), off(d.frags), len(d.frags))
//@   use CNT_FULL(row(d.frags), off(d.frags), len(d.frags))
//@   ensures old(m.FragCount) <= 1 ==> ret == m
//@   ensures old(m.FragCount) > 1 && old(m.FragID) >= old(m.FragCount) ==> ret == nil
//@   ensures ret != nil ==> ret == m
//@   ensures ret != nil && old(m.FragCount) > 1 ==> m.FragID == 0 && m.FragCount == 1 && d.count == len(d.frags) && len(d.frags) == old(m.FragCount) && d.pktID == m.PacketID
//@   modifies all(d), all(m), region("elem<*protocol.UDPMessage>"), region("elem<uint8>")
//@   loop 0
//@     invariant 0 <= off && off == sumA(row(d.frags), dlen(), off(d.frags), rangeindex + 1) && len(data) == sumA(row(d.frags), dlen(), off(d.frags), len(d.frags))
//@     invariant forall(i, 0, len(d.frags), d.frags[i] != nil) && fresh(data)
//@     use SUM_MONO(row(d.frags), dlen(), off(d.frags), rangeindex + 1, len(d.frags))
//@     use SUM_MONO(row(d.frags), dlen(), off(d.frags), rangeindex + 2, len(d.frags))
