package main

import (
	"fmt"
	"math/big"
	"strings"
)

// Term is SMT-LIB 2 term text.
type Term = string

func app(op string, args ...Term) Term {
	if len(args) == 0 {
		return op
	}
	return "(" + op + " " + strings.Join(args, " ") + ")"
}

func itoa(n int64) Term {
	if n < 0 {
		return fmt.Sprintf("(- %d)", -n)
	}
	return fmt.Sprintf("%d", n)
}

func bigTerm(b *big.Int) Term {
	if b.Sign() < 0 {
		return "(- " + new(big.Int).Neg(b).String() + ")"
	}
	return b.String()
}

func pow2(k uint) *big.Int { return new(big.Int).Lsh(big.NewInt(1), k) }

func and(ts ...Term) Term {
	var out []Term
	for _, t := range ts {
		if t == "true" || t == "" {
			continue
		}
		if t == "false" {
			return "false"
		}
		out = append(out, t)
	}
	switch len(out) {
	case 0:
		return "true"
	case 1:
		return out[0]
	}
	return app("and", out...)
}

func or(ts ...Term) Term {
	var out []Term
	for _, t := range ts {
		if t == "false" || t == "" {
			continue
		}
		if t == "true" {
			return "true"
		}
		out = append(out, t)
	}
	switch len(out) {
	case 0:
		return "false"
	case 1:
		return out[0]
	}
	return app("or", out...)
}

func not(t Term) Term {
	switch t {
	case "true":
		return "false"
	case "false":
		return "true"
	}
	if strings.HasPrefix(t, "(not ") && balanced(t[5:len(t)-1]) {
		return t[5 : len(t)-1]
	}
	return app("not", t)
}

func balanced(s string) bool {
	d := 0
	inq := false
	for i := 0; i < len(s); i++ {
		c := s[i]
		if c == '|' {
			inq = !inq
			continue
		}
		if inq {
			continue
		}
		if c == '(' {
			d++
		} else if c == ')' {
			d--
			if d < 0 {
				return false
			}
		} else if c == ' ' && d == 0 {
			return false
		}
	}
	return d == 0
}

func implies(a, b Term) Term {
	if a == "true" {
		return b
	}
	if a == "false" || b == "true" {
		return "true"
	}
	return app("=>", a, b)
}

func ite(c, a, b Term) Term {
	if c == "true" {
		return a
	}
	if c == "false" {
		return b
	}
	if a == b {
		return a
	}
	return app("ite", c, a, b)
}

func eq(a, b Term) Term {
	if a == b {
		return "true"
	}
	return app("=", a, b)
}

func sel(a Term, idx ...Term) Term {
	for _, i := range idx {
		a = app("select", a, i)
	}
	return a
}

// stor builds a nested store: a[idx0][idx1]... = v
func stor(a Term, idx []Term, v Term) Term {
	if len(idx) == 1 {
		return app("store", a, idx[0], v)
	}
	return app("store", a, idx[0], stor(app("select", a, idx[0]), idx[1:], v))
}

func sym(name string) Term {
	simple := true
	for _, c := range name {
		if !(c >= 'a' && c <= 'z' || c >= 'A' && c <= 'Z' || c >= '0' && c <= '9' || c == '_' || c == '.' || c == '$' || c == '@' || c == '!') {
			simple = false
			break
		}
	}
	if simple && len(name) > 0 && !(name[0] >= '0' && name[0] <= '9') {
		return name
	}
	name = strings.ReplaceAll(name, "|", "!")
	name = strings.ReplaceAll(name, "\\", "!")
	return "|" + name + "|"
}

func arraySort(nidx int, leaf string) string {
	s := leaf
	for i := 0; i < nidx; i++ {
		s = "(Array Int " + s + ")"
	}
	return s
}

// Script accumulates declarations and assertions in program order. An
// obligation's query is every line before its position plus the negated goal.
type Script struct {
	lines    []string
	declared map[string]bool
	nfresh   int
}

func newScript() *Script {
	return &Script{declared: map[string]bool{}}
}

func (s *Script) pos() int { return len(s.lines) }

func (s *Script) raw(l string) { s.lines = append(s.lines, l) }

func (s *Script) declare(name, sort string) Term {
	t := sym(name)
	if !s.declared[t] {
		s.declared[t] = true
		s.raw(fmt.Sprintf("(declare-const %s %s)", t, sort))
	}
	return t
}

func (s *Script) declareFun(name string, args []string, ret string) Term {
	t := sym(name)
	if !s.declared[t] {
		s.declared[t] = true
		s.raw(fmt.Sprintf("(declare-fun %s (%s) %s)", t, strings.Join(args, " "), ret))
	}
	return t
}

func (s *Script) fresh(prefix, sort string) Term {
	s.nfresh++
	return s.declare(fmt.Sprintf("%s!%d", prefix, s.nfresh), sort)
}

func (s *Script) assert(t Term) {
	if t == "true" {
		return
	}
	s.raw("(assert " + t + ")")
}

// define introduces a named constant equal to t (keeps later terms small).
func (s *Script) define(prefix, sort string, t Term) Term {
	if len(t) < 40 && !strings.Contains(t, "(ite") {
		return t
	}
	c := s.fresh(prefix, sort)
	s.assert(eq(c, t))
	return c
}

const prelude = `(set-option :produce-models true)
(set-logic ALL)
(declare-sort Str 0)
(declare-fun slen (Str) Int)
(declare-fun sat (Str Int) Int)
(assert (forall ((s Str)) (! (and (>= (slen s) 0) (<= (slen s) 1099511627776)) :pattern ((slen s)))))
(define-fun tdiv ((a Int) (b Int)) Int (ite (>= a 0) (ite (> b 0) (div a b) (- (div a (- b)))) (ite (> b 0) (- (div (- a) b)) (div (- a) (- b)))))
(define-fun trem ((a Int) (b Int)) Int (ite (>= a 0) (mod a (abs b)) (- (mod (- a) (abs b)))))
(define-fun wrapu ((x Int) (m Int)) Int (mod x m))
(define-fun wraps ((x Int) (h Int)) Int (- (mod (+ x h) (* 2 h)) h))
(declare-fun selem (Int Int) Int)
(declare-fun selem_b (Int) Int)
(declare-fun selem_i (Int) Int)
(assert (forall ((b Int) (i Int)) (! (and (= (selem_b (selem b i)) b) (= (selem_i (selem b i)) i) (< (selem b i) 0)) :pattern ((selem b i)))))
(declare-fun root (Int) Int)
(assert (= (root 0) 0))
(assert (forall ((b Int) (i Int)) (! (= (root (selem b i)) (root b)) :pattern ((selem b i)))))
(declare-fun xor8 (Int Int) Int)
(declare-fun and8 (Int Int) Int)
(declare-fun or8 (Int Int) Int)
(assert (forall ((a Int) (b Int)) (! (and (<= 0 (xor8 a b)) (<= (xor8 a b) 255)) :pattern ((xor8 a b)))))
(assert (forall ((a Int) (b Int)) (! (=> (and (<= 0 a) (<= a 255) (<= 0 b) (<= b 255)) (= (xor8 (xor8 a b) b) a)) :pattern ((xor8 (xor8 a b) b)))))
(assert (forall ((a Int) (b Int)) (! (= (xor8 a b) (xor8 b a)) :pattern ((xor8 a b)))))
(assert (forall ((a Int) (b Int)) (! (and (<= 0 (and8 a b)) (<= (and8 a b) 255) (=> (and (<= 0 a) (<= 0 b)) (and (<= (and8 a b) a) (<= (and8 a b) b)))) :pattern ((and8 a b)))))
(assert (forall ((a Int) (b Int)) (! (and (<= 0 (or8 a b)) (<= (or8 a b) 255)) :pattern ((or8 a b)))))
(assert (forall ((a Int) (b Int)) (! (=> (and (<= 0 a) (<= a 255) (= (mod a 16) 0) (<= 0 b) (< b 16)) (= (or8 a b) (+ a b))) :pattern ((or8 a b)))))
`
