package main

import (
	"fmt"
	"go/types"
	"strings"

	"golang.org/x/tools/go/ssa"
)

// Map model: a map value is a Ref; per map type there are regions
//   map<K,V>.dom  : Ref -> (Array K Bool)
//   map<K,V>.val* : Ref -> (Array K leaf)   (one per leaf of V)
//   map<K,V>.size : Ref -> Int

func mapName(mt *types.Map) string {
	return "map<" + leafTypeName(mt.Key()) + "," + leafTypeName(mt.Elem()) + ">"
}

func (fc *FnCtx) keySort(mt *types.Map) string {
	switch kindOfType(mt.Key()) {
	case KStr:
		return "Str"
	case KBool:
		return "Bool"
	case KStruct:
		return fc.structKeySort(mt.Key())
	case KIface:
		return "Int"
	}
	return "Int"
}

// structKeySort declares an SMT datatype for a comparable struct used as a key.
func (fc *FnCtx) structKeySort(T types.Type) string {
	name := "Key<" + typeName(T) + ">"
	s := sym(name)
	if fc.vc.subs[name] {
		return s
	}
	st := structOf(T)
	var fields []string
	for i := 0; i < st.NumFields(); i++ {
		k := kindOfType(st.Field(i).Type())
		if k != KInt && k != KStr && k != KBool {
			panic(unsupported("struct map key with composite field"))
		}
		fields = append(fields, fmt.Sprintf("(%s %s)", sym(name+"."+st.Field(i).Name()), leafSort(k)))
	}
	decl := fmt.Sprintf("(declare-datatypes ((%s 0)) (((%s %s))))", s, sym("mk"+name), strings.Join(fields, " "))
	fc.vc.sc.raw(decl)
	keyDeclMu.Lock()
	keySortDecls[name] = decl
	keyDeclMu.Unlock()
	fc.vc.subs[name] = true
	return s
}

func (fc *FnCtx) keyTerm(k Val, mt *types.Map) Term {
	switch k.K {
	case KStruct:
		name := "Key<" + typeName(mt.Key()) + ">"
		fc.structKeySort(mt.Key())
		if k.S != "" && strings.HasPrefix(k.S, "qk_") {
			return k.S // a key-sorted bound variable (forallKey)
		}
		var as []Term
		for _, f := range k.Fs {
			as = append(as, f.S)
		}
		return app(sym("mk"+name), as...)
	case KIface:
		panic(unsupported("interface-typed map key"))
	}
	return k.S
}

func (fc *FnCtx) mapRegionNames(T types.Type) []string {
	mt := T.Underlying().(*types.Map)
	n := mapName(mt)
	out := []string{n + ".dom", n + ".size"}
	leaves := mapElemLeaves(mt.Elem())
	for _, lf := range leaves {
		out = append(out, n+".val"+lf.suffix)
	}
	// register sorts
	ks := fc.keySort(mt)
	fc.regDecl(n+".dom", 1, "(Array "+ks+" Bool)")
	fc.regDecl(n+".size", 1, "Int")
	if structOf(mt.Elem()) == nil {
		fc.eng.noteRegionType(n+".val", mt.Elem(), ks)
	}
	for _, lf := range leaves {
		fc.regDecl(n+".val"+lf.suffix, 1, "(Array "+ks+" "+leafSort(lf.kind)+")")
	}
	return out
}

func (fc *FnCtx) regDecl(name string, nidx int, leaf string) {
	if _, ok := fc.eng.regions[name]; !ok {
		fc.eng.regions[name] = regionInfo{nidx, leaf}
	}
}

func (fc *FnCtx) mapInit(st *State, r Term, T types.Type) {
	mt := T.Underlying().(*types.Map)
	fc.mapRegionNames(T)
	n := mapName(mt)
	ks := fc.keySort(mt)
	dom := fc.vc.region(st, n+".dom", 1, "(Array "+ks+" Bool)")
	fc.vc.setRegion(st, n+".dom", 1, "(Array "+ks+" Bool)", app("store", dom, r, "((as const (Array "+ks+" Bool)) false)"))
	sz := fc.vc.region(st, n+".size", 1, "Int")
	fc.vc.setRegion(st, n+".size", 1, "Int", app("store", sz, r, "0"))
}

func (fc *FnCtx) mapSize(st *State, m Val, mt *types.Map) Term {
	fc.mapRegionNames(m.T)
	sz := fc.vc.region(st, mapName(mt)+".size", 1, "Int")
	// a map with a positive size has a key: mapwit names one (the size is the cardinality of the
	// key set; this is the only consequence of that which the model uses besides +1 / -1)
	ks := fc.keySort(mt)
	dom := app("select", fc.vc.region(st, mapName(mt)+".dom", 1, "(Array "+ks+" Bool)"), m.S)
	wit := fc.vc.sc.declareFun("mapwit<"+ks+">", []string{"(Array " + ks + " Bool)"}, ks)
	w := app(wit, dom)
	fact := and(app(">=", app("select", sz, m.S), "0"), implies(app(">", app("select", sz, m.S), "0"), and(app("select", dom, w), fc.keyRangeFacts(mt, w))))
	if !fc.vc.subs["mapwit:"+fact] {
		fc.vc.subs["mapwit:"+fact] = true
		fc.vc.sc.assert(fact)
	}
	return ite(eq(m.S, "0"), "0", app("select", sz, m.S))
}

// keyRangeFacts: the integer components of a key-sorted term lie in the range of their Go type.
func (fc *FnCtx) keyRangeFacts(mt *types.Map, k Term) Term {
	switch kindOfType(mt.Key()) {
	case KStruct:
		su := structOf(mt.Key())
		name := "Key<" + typeName(mt.Key()) + ">"
		fc.structKeySort(mt.Key())
		out := "true"
		for i := 0; i < su.NumFields(); i++ {
			if ft := su.Field(i).Type(); kindOfType(ft) == KInt {
				out = and(out, rangeFact(app(sym(name+"."+su.Field(i).Name()), k), ft))
			}
		}
		return out
	case KInt:
		return rangeFact(k, mt.Key())
	}
	return "true"
}

// mapDomSel is the bare membership term dom[m][key] (usable as a quantifier trigger).
func (fc *FnCtx) mapDomSel(st *State, m Val, mt *types.Map, key Term) Term {
	fc.mapRegionNames(m.T)
	ks := fc.keySort(mt)
	dom := fc.vc.region(st, mapName(mt)+".dom", 1, "(Array "+ks+" Bool)")
	return sel(dom, m.S, key)
}

func (fc *FnCtx) mapDom(st *State, m Val, mt *types.Map, key Term) Term {
	fc.mapRegionNames(m.T)
	ks := fc.keySort(mt)
	dom := fc.vc.region(st, mapName(mt)+".dom", 1, "(Array "+ks+" Bool)")
	return and(not(eq(m.S, "0")), sel(dom, m.S, key))
}

func (fc *FnCtx) mapVal(st *State, m Val, mt *types.Map, key Term) Val {
	fc.mapRegionNames(m.T)
	ks := fc.keySort(mt)
	n := mapName(mt)
	get := func(suffix string, k Kind) Term {
		r := fc.vc.region(st, n+".val"+suffix, 1, "(Array "+ks+" "+leafSort(k)+")")
		return sel(r, m.S, key)
	}
	return fc.getLeaves(get, mt.Elem(), "")
}

// mapGet: spec-level m[k] (zero value when absent).
func (fc *FnCtx) mapGet(st *State, m Val, k Val, mt *types.Map) Val {
	key := fc.keyTerm(k, mt)
	in := fc.mapDom(st, m, mt, key)
	return fc.iteVal(in, fc.mapVal(st, m, mt, key), fc.vc.zero(mt.Elem()))
}

func (fc *FnCtx) lookup(in *ssa.Lookup, st *State) {
	x := fc.val(in.X)
	if mt, ok := in.X.Type().Underlying().(*types.Map); ok {
		k := fc.val(in.Index)
		key := fc.keyTerm(k, mt)
		present := fc.mapDom(st, x, mt, key)
		v := fc.iteVal(present, fc.mapVal(st, x, mt, key), fc.vc.zero(mt.Elem()))
		v = fc.nameVal("mv_"+in.Name(), v)
		fc.assume(fc.typeFacts(v, st.NA))
		if in.CommaOk {
			fc.vals[in] = Val{K: KTuple, T: in.Type(), Fs: []Val{v, boolV(fc.vc.sc.define("mok", "Bool", present))}}
		} else {
			fc.vals[in] = v
		}
		return
	}
	// string indexing
	i := fc.val(in.Index)
	fc.oblig("bounds", fc.instrText(in), and(app("<=", "0", i.S), app("<", i.S, app("slen", x.S))), in.Pos())
	v := intV(app("sat", x.S, i.S), types.Typ[types.Uint8])
	fc.assume(rangeFact(v.S, v.T))
	fc.vals[in] = v
}

func (fc *FnCtx) mapUpdate(in *ssa.MapUpdate, st *State) {
	m := fc.val(in.Map)
	mt := in.Map.Type().Underlying().(*types.Map)
	fc.oblig("nil", "map "+fc.nameOf(in.Map), not(eq(m.S, "0")), in.Pos())
	fc.mapFrame(m, in)
	if fa := fieldOfLoad(in.Map); fa != nil {
		fc.fieldHooks("mapwrite", fa, []ssa.Value{fa.X, in.Key}, in, st)
		fc.fieldHooks("mapinsert", fa, []ssa.Value{fa.X, in.Key}, in, st)
	}
	fc.mapStore(st, m, mt, fc.keyTerm(fc.val(in.Key), mt), fc.val(in.Value))
}

func (fc *FnCtx) mapFrame(m Val, in ssa.Instruction) {
	if fc.root().con == nil {
		return
	}
	if _, anyOK := fc.root().myTargets(); anyOK {
		return
	}
	mt := m.T.Underlying().(*types.Map)
	g := fc.root().allowedWrite(mapName(mt)+".dom", []Term{m.S}, false, "", "")
	if g != "true" {
		fc.oblig("frame", "map write", g, posOf(in))
	}
}

func (fc *FnCtx) mapStore(st *State, m Val, mt *types.Map, key Term, v Val) {
	fc.mapRegionNames(m.T)
	n := mapName(mt)
	ks := fc.keySort(mt)
	vc := fc.vc
	domS := "(Array " + ks + " Bool)"
	dom := vc.region(st, n+".dom", 1, domS)
	sz := vc.region(st, n+".size", 1, "Int")
	was := sel(dom, m.S, key)
	vc.setRegion(st, n+".size", 1, "Int", app("store", sz, m.S, ite(was, sel(sz, m.S), app("+", sel(sz, m.S), "1"))))
	vc.setRegion(st, n+".dom", 1, domS, stor(dom, []Term{m.S, key}, "true"))
	put := func(suffix string, k Kind, t Term) {
		s := "(Array " + ks + " " + leafSort(k) + ")"
		r := vc.region(st, n+".val"+suffix, 1, s)
		vc.setRegion(st, n+".val"+suffix, 1, s, stor(r, []Term{m.S, key}, t))
	}
	fc.putLeaves(put, mt.Elem(), "", v)
}

// putLeaves stores value v of type T leaf by leaf (suffix names as in mapElemLeaves).
func (fc *FnCtx) putLeaves(put func(suffix string, k Kind, t Term), T types.Type, prefix string, v Val) {
	vc := fc.vc
	switch k := kindOfType(T); k {
	case KSlice:
		sl := v.Sl
		if sl == nil {
			sl = &SliceV{"0", "0", "0", "0"}
		}
		put(prefix+".base", KInt, sl.Base)
		put(prefix+".off", KInt, sl.Off)
		put(prefix+".len", KInt, sl.Len)
		put(prefix+".cap", KInt, sl.Cap)
	case KIface:
		put(prefix+".pl", KInt, v.S)
		put(prefix+".tag", KInt, v.Tag)
	case KFunc:
		put(prefix, KInt, vc.funcID(v))
	case KPtr:
		put(prefix, KInt, v.S)
	case KStruct:
		if isEmptyStruct(T) {
			put(prefix, KInt, "0") // struct{}: set-like map, the value carries no information
			return
		}
		su := structOf(T)
		for i := 0; i < su.NumFields(); i++ {
			fv := vc.zero(su.Field(i).Type())
			if v.K == KStruct && i < len(v.Fs) {
				fv = v.Fs[i]
			}
			fc.putLeaves(put, su.Field(i).Type(), prefix+"."+su.Field(i).Name(), fv)
		}
	default:
		put(prefix, k, vc.coerce(v, k))
	}
}

// getLeaves assembles a value of type T from its leaves.
func (fc *FnCtx) getLeaves(get func(suffix string, k Kind) Term, T types.Type, prefix string) Val {
	switch k := kindOfType(T); k {
	case KSlice:
		return Val{K: KSlice, T: T, Sl: &SliceV{get(prefix+".base", KInt), get(prefix+".off", KInt), get(prefix+".len", KInt), get(prefix+".cap", KInt)}}
	case KIface:
		return Val{K: KIface, T: T, S: get(prefix+".pl", KInt), Tag: get(prefix+".tag", KInt)}
	case KPtr:
		return fc.vc.ptrFromRef(get(prefix, KInt), T)
	case KFunc:
		return Val{K: KFunc, T: T, S: get(prefix, KInt)}
	case KStruct:
		v := Val{K: KStruct, T: T}
		if isEmptyStruct(T) {
			return v
		}
		su := structOf(T)
		for i := 0; i < su.NumFields(); i++ {
			v.Fs = append(v.Fs, fc.getLeaves(get, su.Field(i).Type(), prefix+"."+su.Field(i).Name()))
		}
		return v
	default:
		return Val{K: k, T: T, S: get(prefix, k)}
	}
}

// mapElemLeaves: the leaf regions (suffix after ".val", kind) a map's element type occupies;
// a struct value with flat fields is stored field by field.
func mapElemLeaves(T types.Type) []leafSpec {
	if su := structOf(T); su != nil && !isEmptyStruct(T) {
		var out []leafSpec
		for i := 0; i < su.NumFields(); i++ {
			ft := su.Field(i).Type()
			if _, isArr := ft.Underlying().(*types.Array); isArr {
				panic(unsupported("map with struct elements that contain arrays"))
			}
			for _, lf := range mapElemLeaves(ft) {
				out = append(out, leafSpec{"." + su.Field(i).Name() + lf.suffix, lf.kind})
			}
		}
		return out
	}
	if _, isArr := T.Underlying().(*types.Array); isArr {
		panic(unsupported("map with array elements"))
	}
	return cellLeaves(T)
}

func isEmptyStruct(T types.Type) bool {
	s, ok := T.Underlying().(*types.Struct)
	return ok && s.NumFields() == 0
}

func (fc *FnCtx) mapDelete(m Val, k Val, in ssa.Instruction, st *State) {
	if ci, ok := in.(ssa.CallInstruction); ok && len(ci.Common().Args) == 2 {
		if fa := fieldOfLoad(ci.Common().Args[0]); fa != nil {
			fc.fieldHooks("mapwrite", fa, []ssa.Value{fa.X, ci.Common().Args[1]}, in, st)
			fc.fieldHooks("mapdelete", fa, []ssa.Value{fa.X, ci.Common().Args[1]}, in, st)
		}
	}
	mt := m.T.Underlying().(*types.Map)
	fc.mapRegionNames(m.T)
	fc.mapFrame(m, in)
	n := mapName(mt)
	ks := fc.keySort(mt)
	vc := fc.vc
	key := fc.keyTerm(k, mt)
	domS := "(Array " + ks + " Bool)"
	dom := vc.region(st, n+".dom", 1, domS)
	sz := vc.region(st, n+".size", 1, "Int")
	was := sel(dom, m.S, key)
	// delete on a nil map is a no-op
	vc.setRegion(st, n+".size", 1, "Int", ite(eq(m.S, "0"), sz, app("store", sz, m.S, ite(was, app("-", sel(sz, m.S), "1"), sel(sz, m.S)))))
	vc.setRegion(st, n+".dom", 1, domS, ite(eq(m.S, "0"), dom, stor(dom, []Term{m.S, key}, "false")))
}

func (fc *FnCtx) root() *FnCtx {
	r := fc
	for r.frameParent != nil {
		r = r.frameParent
	}
	return r
}

// ---------------------------------------------------------------------------
// range over maps / strings; select

type iterInfo struct {
	m       Val
	mt      *types.Map
	visited Term // (Array K Bool) ghost, versioned through the iterator cell
	isStr   bool
}

func (fc *FnCtx) rangeInit(in *ssa.Range, st *State) {
	if _, ok := in.X.Type().Underlying().(*types.Map); !ok {
		panic(unsupported("range over string"))
	}
	m := fc.val(in.X)
	mt := in.X.Type().Underlying().(*types.Map)
	fc.mapRegionNames(m.T)
	ks := fc.keySort(mt)
	// the iterator is an object whose visited set lives in a region so that it
	// can be havocked at loop heads like any other state
	it := fc.vc.alloc(st)
	name := "iter<" + mapName(mt) + ">.visited"
	sort := "(Array " + ks + " Bool)"
	fc.regDecl(name, 1, sort)
	r := fc.vc.region(st, name, 1, sort)
	fc.vc.setRegion(st, name, 1, sort, app("store", r, it, "((as const "+sort+") false)"))
	fc.vals[in] = Val{K: KInt, T: in.Type(), S: it}
	if fc.iters == nil {
		fc.iters = map[ssa.Value]*iterInfo{}
	}
	fc.iters[in] = &iterInfo{m: m, mt: mt}
}

func (fc *FnCtx) rangeNext(in *ssa.Next, st *State) {
	if in.IsString {
		panic(unsupported("range over string"))
	}
	ii := fc.iters[in.Iter]
	if ii == nil {
		panic(unsupported("Next on unknown iterator"))
	}
	it := fc.val(in.Iter)
	mt := ii.mt
	ks := fc.keySort(mt)
	name := "iter<" + mapName(mt) + ">.visited"
	sort := "(Array " + ks + " Bool)"
	r := fc.vc.region(st, name, 1, sort)
	visited := app("select", r, it.S)
	ok := fc.vc.sc.fresh("next_ok", "Bool")
	var kv Val
	var key Term
	kT := mt.Key()
	kv = fc.freshVal("next_k", kT)
	fc.assume(fc.typeFacts(kv, st.NA))
	key = fc.keyTerm(kv, mt)
	domNow := fc.mapDom(st, ii.m, mt, key)
	// ok: yields a key currently in the map that was not visited before
	fc.assume(implies(ok, and(domNow, not(app("select", visited, key)))))
	// !ok: every key currently in the map has been visited
	qk := "qk"
	dom := fc.vc.region(st, mapName(mt)+".dom", 1, sort)
	fc.assume(implies(not(ok), fmt.Sprintf("(forall ((%s %s)) (! (=> (select (select %s %s) %s) (select %s %s)) :pattern ((select (select %s %s) %s))))", qk, ks, dom, ii.m.S, qk, visited, qk, dom, ii.m.S, qk)))
	fc.assume(implies(eq(ii.m.S, "0"), not(ok)))
	fc.vc.setRegion(st, name, 1, sort, app("store", r, it.S, ite(ok, app("store", visited, key, "true"), visited)))
	val := fc.mapVal(st, ii.m, mt, key)
	val = fc.nameVal("next_v", val)
	fc.assume(implies(ok, fc.typeFacts(val, st.NA)))
	fc.vals[in] = Val{K: KTuple, T: in.Type(), Fs: []Val{boolV(ok), kv, val}}
}

func (fc *FnCtx) selectInstr(in *ssa.Select, st *State) {
	// nondeterministic choice among the ready arms; received values are havocked
	tup := in.Type().(*types.Tuple)
	v := Val{K: KTuple, T: in.Type()}
	idx := fc.vc.sc.fresh("select_idx", "Int")
	lo := "0"
	if !in.Blocking {
		lo = "(- 1)"
	}
	fc.assume(and(app("<=", lo, idx), app("<", idx, itoa(int64(len(in.States))))))
	v.Fs = append(v.Fs, intV(idx, types.Typ[types.Int]))
	v.Fs = append(v.Fs, boolV(fc.vc.sc.fresh("select_ok", "Bool")))
	for i := 2; i < tup.Len(); i++ {
		r := fc.freshVal("select_recv", tup.At(i).Type())
		fc.assume(fc.typeFacts(r, st.NA))
		v.Fs = append(v.Fs, r)
	}
	fc.vals[in] = v
}

// hooks (ghost updates / guards on call sites): see hooks.go
