package main

import "strings"

// dropDeadDecls removes from a query the declarations nothing else in it mentions: string
// literal constants (with the assertions that only spell out their bytes) and declared
// functions of other packages' contracts. They are irrelevant to the goal, but their mere
// presence shifts the solvers' heuristics: the same obligation was proved in 4 s under one
// property and timed out under another that loads more packages.
func dropDeadDecls(lines []string, goal string) []string {
	declSym := func(l string) string {
		for _, p := range []string{"(declare-const ", "(declare-fun "} {
			if strings.HasPrefix(l, p) {
				rest := l[len(p):]
				if strings.HasPrefix(rest, "|") {
					if j := strings.Index(rest[1:], "|"); j >= 0 {
						return rest[:j+2]
					}
				}
				if j := strings.IndexAny(rest, " )"); j > 0 {
					return rest[:j]
				}
			}
		}
		return ""
	}
	// a string literal's own definition lines
	selfLine := func(l, s string) bool {
		return strings.HasPrefix(l, "(assert (= (slen "+s+") ") || strings.HasPrefix(l, "(assert (and (= (sat "+s+" ") || strings.HasPrefix(l, "(assert (= (sat "+s+" ")
	}
	drop := make([]bool, len(lines))
	for changed := true; changed; {
		changed = false
		for i, l := range lines {
			if drop[i] {
				continue
			}
			s := declSym(l)
			if s == "" || !(strings.HasPrefix(s, "str_") || strings.HasPrefix(s, "|rec:") || strings.HasPrefix(s, "|pure<") || strings.HasPrefix(s, "|mapwit<")) {
				continue
			}
			used := strings.Contains(goal, s)
			for j, m := range lines {
				if used {
					break
				}
				if j == i || drop[j] || selfLine(m, s) {
					continue
				}
				if strings.Contains(m, s) {
					used = true
				}
			}
			if used {
				continue
			}
			drop[i] = true
			changed = true
			for j, m := range lines {
				if selfLine(m, s) {
					drop[j] = true
				}
			}
		}
	}
	out := lines[:0:0]
	for i, l := range lines {
		if !drop[i] {
			out = append(out, l)
		}
	}
	return out
}

// dropOffPathFacts removes hypotheses guarded by the reachability of a block the goal's own
// block does not depend on: `(assert (=> reach_bK F))` says something about executions that
// pass through block K; if the goal is about block G and reach_bG is not defined (directly or
// through its predecessors) in terms of reach_bK, F is about other paths (for instance the
// postconditions assumed on an exit path, while the goal is on the loop's back edge).
// Dropping a hypothesis is always sound; it keeps quantified facts of other paths out of the
// solver's way.
func dropOffPathFacts(lines []string, goal string) []string {
	tokens := func(s string) []string {
		var out []string
		for i := 0; i+7 < len(s); i++ {
			if s[i:i+7] != "reach_b" {
				continue
			}
			j := i + 7
			for j < len(s) && (s[j] >= '0' && s[j] <= '9' || s[j] == '!' || s[j] >= 'a' && s[j] <= 'z' || s[j] == '_') {
				j++
			}
			out = append(out, s[i:j])
			i = j - 1
		}
		return out
	}
	defs := map[string]string{}
	for _, l := range lines {
		if strings.HasPrefix(l, "(assert (= reach_b") {
			t := tokens(l)
			if len(t) > 0 {
				defs[t[0]] = l
			}
		}
	}
	cone := map[string]bool{}
	var work []string
	for _, t := range tokens(goal) {
		if !cone[t] {
			cone[t] = true
			work = append(work, t)
		}
	}
	if len(work) == 0 {
		return lines
	}
	// facts guarded by a block of the cone may tie it to further blocks (an inlined call:
	// "the caller continues only if the callee reached a return"): those join the cone too
	guarded := map[string][]string{}
	for _, l := range lines {
		if strings.HasPrefix(l, "(assert (=> reach_b") {
			t := tokens(l)
			if len(t) > 1 {
				guarded[t[0]] = append(guarded[t[0]], t[1:]...)
			}
		}
	}
	for len(work) > 0 {
		t := work[len(work)-1]
		work = work[:len(work)-1]
		for _, u := range append(tokens(defs[t]), guarded[t]...) {
			if !cone[u] {
				cone[u] = true
				work = append(work, u)
			}
		}
	}
	out := lines[:0:0]
	for _, l := range lines {
		if strings.HasPrefix(l, "(assert (=> reach_b") {
			t := tokens(l[:min(len(l), 60)])
			if len(t) > 0 && !cone[t[0]] {
				continue
			}
		}
		out = append(out, l)
	}
	return out
}

// sliceByGoalUFs is the first, cheap attempt at an obligation: every hypothesis that speaks
// about an uninterpreted function the goal does not mention (xor8, hash bytes, recursive spec
// functions, pure extern results, ...) is left out, together with the axioms of those
// functions. Leaving hypotheses out is sound; when the sliced query is not unsat the full
// query is tried as before, so nothing is lost. It makes proofs about one aspect of a
// function (say, that a key prefix is unchanged) independent of the quantified facts about
// another (the xor key stream), which were what made such proofs time out now and then.
func sliceByGoalUFs(lines []string, goal string, ufs []string) ([]string, bool) {
	var foreign []string
	for _, u := range ufs {
		if !strings.Contains(goal, "("+u+" ") {
			foreign = append(foreign, "("+u+" ")
		}
	}
	if len(foreign) == 0 {
		return lines, false
	}
	out := lines[:0:0]
	changed := false
	for _, l := range lines {
		if strings.HasPrefix(l, "(assert ") {
			drop := false
			for _, f := range foreign {
				if strings.Contains(l, f) {
					drop = true
					break
				}
			}
			if drop {
				changed = true
				continue
			}
		}
		out = append(out, l)
	}
	return out, changed
}
