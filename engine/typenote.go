package main

import (
	"go/token"
	"go/types"

	"golang.org/x/tools/go/ssa"
)

// noteTypes records, before a function is executed symbolically, what Go's types say about
// every heap region the function can touch (sized-integer ranges, slice header bounds,
// references): the well-formedness facts of a region's entry version and of its havocked
// versions are emitted when the version is first mentioned, so the region's type must be
// known by then whatever instruction mentions it first.
func (fc *FnCtx) noteTypes(f *ssa.Function) {
	seen := map[types.Type]bool{}
	var walk func(T types.Type)
	walk = func(T types.Type) {
		if T == nil || seen[T] {
			return
		}
		seen[T] = true
		eng := fc.eng
		switch u := T.Underlying().(type) {
		case *types.Pointer:
			el := u.Elem()
			if !isObjectType(el) {
				eng.noteRegionType("cell<"+leafTypeName(el)+">", el, "")
			}
			walk(el)
		case *types.Slice:
			el := u.Elem()
			if !isObjectType(el) {
				eng.noteRegionType("elem<"+leafTypeName(el)+">", el, "")
			}
			walk(el)
		case *types.Array:
			el := u.Elem()
			if !isObjectType(el) {
				eng.noteRegionType("elem<"+leafTypeName(el)+">", el, "")
			}
			walk(el)
		case *types.Struct:
			owner := typeName(T)
			for i := 0; i < u.NumFields(); i++ {
				ft := u.Field(i).Type()
				if !isObjectType(ft) {
					eng.noteRegionType(owner+"."+u.Field(i).Name(), ft, "")
				}
				walk(ft)
			}
		case *types.Map:
			func() {
				defer func() { recover() }() // key kinds outside the subset are reported where they are used
				fc.mapRegionNames(T)
			}()
			walk(u.Elem())
		case *types.Tuple:
			for i := 0; i < u.Len(); i++ {
				walk(u.At(i).Type())
			}
		}
	}
	for _, p := range f.Params {
		walk(p.Type())
	}
	for _, fv := range f.FreeVars {
		walk(fv.Type())
	}
	for _, b := range f.Blocks {
		for _, in := range b.Instrs {
			if v, ok := in.(ssa.Value); ok {
				walk(v.Type())
			}
		}
	}
}

// rangeIntBound recognises the counter of `for i := range n` (go/ssa builds it as a rotated
// loop: header phi "rangeint.iter", test `iter+1 < n` at the end of the body) and returns n
// when it is defined outside the loop.
func rangeIntBound(li *loopInfo, phi *ssa.Phi) ssa.Value {
	if phi.Comment != "rangeint.iter" {
		return nil
	}
	for b := range li.body {
		for _, in := range b.Instrs {
			cmp, ok := in.(*ssa.BinOp)
			if !ok || cmp.Op != token.LSS {
				continue
			}
			inc, ok := cmp.X.(*ssa.BinOp)
			if !ok || inc.Op != token.ADD || inc.X != ssa.Value(phi) {
				continue
			}
			if c, ok := inc.Y.(*ssa.Const); !ok || c.Value == nil || c.Value.ExactString() != "1" {
				continue
			}
			if d, ok := cmp.Y.(ssa.Instruction); ok && li.body[d.Block()] {
				continue // bound computed inside the loop
			}
			return cmp.Y
		}
	}
	return nil
}

// counterLowerBound recognises `for i := c; i < X; i++` (header phi with one constant entry
// value c, every back edge carrying phi+1, the header's exit test phi < X) and returns c:
// the counter never drops below its start (phi < X <= max of its type, so phi+1 cannot wrap).
func counterLowerBound(li *loopInfo, phi *ssa.Phi) (int64, bool) {
	bt, isInt := phi.Type().Underlying().(*types.Basic)
	if !isInt || bt.Info()&types.IsInteger == 0 {
		return 0, false
	}
	hdr := li.header
	if len(hdr.Instrs) == 0 || phi.Block() != hdr {
		return 0, false
	}
	br, ok := hdr.Instrs[len(hdr.Instrs)-1].(*ssa.If)
	if !ok {
		return 0, false
	}
	cmp, ok := br.Cond.(*ssa.BinOp)
	if !ok || cmp.Op != token.LSS || cmp.X != ssa.Value(phi) || len(hdr.Succs) != 2 || !li.body[hdr.Succs[0]] || li.body[hdr.Succs[1]] {
		return 0, false
	}
	init, have := int64(0), false
	for i, e := range phi.Edges {
		if !li.body[hdr.Preds[i]] {
			c, isC := e.(*ssa.Const)
			if !isC || c.Value == nil || have {
				return 0, false
			}
			init, have = c.Int64(), true
			continue
		}
		inc, isB := e.(*ssa.BinOp)
		if !isB || inc.Op != token.ADD || inc.X != ssa.Value(phi) {
			return 0, false
		}
		if c, isC := inc.Y.(*ssa.Const); !isC || c.Value == nil || c.Value.ExactString() != "1" {
			return 0, false
		}
	}
	return init, have
}
