package main

import (
	"sort"
	"strings"
)

// patternedAxiom gives a closed axiom of the form forall x. forall y. BODY (no trigger
// of its own) a single flattened quantifier with an explicit trigger: the first
// application of an uninterpreted function in BODY that mentions every bound variable.
// Without it the solvers pick their own triggers for the nested quantifiers and a range
// axiom such as 0 <= hbyte(q, j) <= 255 can make unrelated goals diverge.
func patternedAxiom(t Term, ufNames []string) Term {
	var binders []string
	var names []string
	body := t
	for strings.HasPrefix(body, "(forall (") {
		rest := body[len("(forall "):]
		n := matchParen(rest)
		if n < 0 {
			return t
		}
		bl := rest[:n+1] // ((x Int) (y Int))
		inner := strings.TrimSpace(rest[n+1 : len(rest)-1])
		for _, b := range splitSexps(bl[1 : len(bl)-1]) {
			binders = append(binders, b)
			f := strings.Fields(strings.Trim(b, "()"))
			if len(f) > 0 {
				names = append(names, f[0])
			}
		}
		body = inner
	}
	if len(binders) == 0 || strings.HasPrefix(body, "(! ") {
		return t
	}
	sort.Strings(ufNames)
	best := ""
	bestAt := -1
	for _, u := range ufNames {
		key := "(" + u + " "
		from := 0
		for {
			i := strings.Index(body[from:], key)
			if i < 0 {
				break
			}
			i += from
			n := matchParen(body[i:])
			if n < 0 {
				break
			}
			term := body[i : i+n+1]
			ok := true
			for _, v := range names {
				if !containsToken(term, v) {
					ok = false
					break
				}
			}
			if ok && (bestAt < 0 || i < bestAt) {
				best, bestAt = term, i
			}
			from = i + 1
		}
	}
	if best == "" {
		return t
	}
	return "(forall (" + strings.Join(binders, " ") + ") (! " + body + " :pattern (" + best + ")))"
}

// matchParen returns the index of the parenthesis closing the one s starts with.
func matchParen(s string) int {
	if len(s) == 0 || s[0] != '(' {
		return -1
	}
	d := 0
	inq := false
	for i := 0; i < len(s); i++ {
		switch {
		case s[i] == '|':
			inq = !inq
		case inq:
		case s[i] == '(':
			d++
		case s[i] == ')':
			d--
			if d == 0 {
				return i
			}
		}
	}
	return -1
}

func splitSexps(s string) []string {
	var out []string
	s = strings.TrimSpace(s)
	for len(s) > 0 {
		n := matchParen(s)
		if n < 0 {
			break
		}
		out = append(out, s[:n+1])
		s = strings.TrimSpace(s[n+1:])
	}
	return out
}

func containsToken(s, tok string) bool {
	from := 0
	for {
		i := strings.Index(s[from:], tok)
		if i < 0 {
			return false
		}
		i += from
		j := i + len(tok)
		okL := i == 0 || strings.ContainsRune("() ", rune(s[i-1]))
		okR := j == len(s) || strings.ContainsRune("() ", rune(s[j]))
		if okL && okR {
			return true
		}
		from = i + 1
	}
}
