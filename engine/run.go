package main

import (
	"fmt"
	"go/token"
	"go/types"
	"sort"
	"strings"

	"golang.org/x/tools/go/ssa"
)

// verifyFunction generates all obligations of fn under contract con.
func (eng *Engine) verifyFunction(fn *ssa.Function, con *Contract, pkg *PkgInfo) (fc *FnCtx, err error) {
	vc := newVC(eng)
	fc = &FnCtx{vc: vc, eng: eng, fn: fn, con: con, pkg: pkg, vals: map[ssa.Value]Val{},
		reach: map[*ssa.BasicBlock]Term{}, out: map[*ssa.BasicBlock]*State{}, done: map[*ssa.BasicBlock]bool{},
		counts: map[string]int{}, params: map[string]Val{}, unknownCallees: map[string]bool{}}
	defer func() {
		if r := recover(); r != nil {
			if u, ok := r.(unsupported); ok {
				err = fmt.Errorf("outside subset: %s", string(u))
				return
			}
			panic(r)
		}
	}()
	if con != nil {
		fc.nowrap = con.Nowrap
	}
	fc.findLoops()
	fc.noteTypes(fn)
	init := &State{Heap: map[string]Term{}, Gh: map[string]Term{}}
	init.NA = vc.sc.declare("NA@0", "Int")
	fc.na0 = init.NA
	vc.na0 = init.NA
	vc.sc.assert(app(">", init.NA, "0"))
	fc.old = init.clone()
	vc.st = init
	fc.emitAxioms()

	// parameters
	entry := fn.Blocks[0]
	fc.cur = entry
	fc.reach[entry] = "true"
	for i, p := range fn.Params {
		v := fc.freshVal("p_"+p.Name(), p.Type())
		fc.vals[p] = v
		vc.sc.assert(fc.typeFacts(v, init.NA))
		fc.params[p.Name()] = v
		if con != nil && i < len(con.Params) && con.Params[i] != "" && con.Params[i] != "_" {
			fc.params[con.Params[i]] = v
		}
		if con != nil {
			// a renamed parameter keeps the name the contract knows it by (rebind.go)
			if old := fc.recordedParam(i, p.Name()); old != "" {
				if _, clash := fc.params[old]; !clash {
					fc.params[old] = v
				}
			}
		}
		if i == 0 && fn.Signature.Recv() != nil {
			fc.params["this"] = v
			if v.K == KPtr && v.S != "" && (con == nil || !con.NilRecv) {
				vc.sc.assert(app("not", eq(v.S, "0"))) // implicit: non-nil receiver (checked at verified call sites)
			}
		}
	}
	for _, fv := range fn.FreeVars {
		v := fc.freshVal("fv_"+fv.Name(), fv.Type())
		fc.vals[fv] = v
		vc.sc.assert(fc.typeFacts(v, init.NA))
		fc.params[fv.Name()] = v
	}
	// preconditions and object invariants
	if con != nil {
		env := fc.env(init, init)
		for _, c := range con.Requires {
			t := fc.evalBool(c.Expr, env)
			vc.sc.assert(t)
		}
		for _, t := range fc.objInvariants(init, init) {
			vc.sc.assert(t.term)
		}
		for _, u := range con.Uses {
			fc.useLemma(u, env)
		}
	}
	if fn.Name() == "init" && fn.Synthetic != "" && fn.Pkg != nil {
		// the package initialiser runs once: its guard flag is still false on entry
		vc.sc.assert(not(vc.region(init, "g:"+fn.Pkg.Pkg.Name()+".init$guard", 0, "Bool")))
	}
	// invariants over this package's variables (established by its initialiser)
	if fn.Name() != "init" || fn.Synthetic == "" {
		for _, gi := range eng.cs.GlobalInvs {
			if pkg != nil && gi.PkgPath == pkg.PkgPath {
				vc.sc.assert(fc.evalBool(gi.Clause.Expr, fc.env(init, init)))
			}
		}
	}
	// vacuity canary: the precondition must be satisfiable
	pre := &Obligation{Name: eng.shortFn(fn) + "/vacuity/precondition-satisfiable#0", Kind: "vacuity", Fn: eng.shortFn(fn), Goal: "false", Pos: vc.sc.pos(), VC: vc, Expect: "sat"}
	fc.obls = append(fc.obls, pre)

	for _, b := range fc.order() {
		fc.execBlock(b, init)
	}
	return fc, nil
}

func (fc *FnCtx) execBlock(b *ssa.BasicBlock, init *State) {
	vc := fc.vc
	fc.cur = b
	var st *State
	if b.Index == 0 {
		st = init.clone()
	} else {
		es := fc.inEdges(b, false)
		if len(es) == 0 {
			fc.reach[b] = "false"
			fc.out[b] = init.clone()
			fc.done[b] = true
			// still need phi placeholders
			for _, in := range b.Instrs {
				if v, ok := in.(ssa.Value); ok {
					fc.vals[v] = fc.freshVal("dead", v.Type())
				}
			}
			return
		}
		var conds []Term
		for _, e := range es {
			conds = append(conds, e.cond)
		}
		r := vc.sc.fresh(fmt.Sprintf("reach_b%d", b.Index), "Bool")
		vc.sc.assert(eq(r, or(conds...)))
		fc.reach[b] = r
		st = fc.mergeStates(es)
		// phi nodes from forward edges
		for _, in := range b.Instrs {
			phi, ok := in.(*ssa.Phi)
			if !ok {
				break
			}
			var vs []Val
			for _, e := range es {
				vs = append(vs, fc.val(phi.Edges[e.pi]))
			}
			fc.vals[phi] = fc.nameVal("phi_"+phiName(phi), fc.mergeVals(vs, conds))
		}
	}
	vc.st = st
	if li := fc.loops[b]; li != nil {
		fc.loopHead(li, st)
	}
	for _, in := range b.Instrs {
		if _, ok := in.(*ssa.Phi); ok {
			continue
		}
		fc.execInstr(in, st)
		if fc.reach[b] == "false" {
			break
		}
	}
	fc.out[b] = st
	fc.done[b] = true
	// back edges leaving b
	for k, s := range b.Succs {
		if s.Dominates(b) {
			if li := fc.loops[s]; li != nil {
				fc.backEdge(li, b, k, st)
			}
		}
	}
}

func phiName(p *ssa.Phi) string {
	if p.Comment != "" {
		return p.Comment
	}
	return p.Name()
}

// regionsWrittenIn returns the regions possibly written inside the loop body,
// computed syntactically from stores and callee frames.
func (fc *FnCtx) loopHead(li *loopInfo, st *State) {
	vc := fc.vc
	b := li.header
	spec := li.spec
	// 1. invariants hold on entry
	if spec != nil {
		env := fc.envAtLoop(li, st, nil)
		for i, c := range spec.Invariants {
			if t, ok := fc.tryEvalBool(c, env, fmt.Sprintf("loop%d/%d %s", li.index, i, c.Text)); ok {
				fc.oblig("inv-init", fmt.Sprintf("loop%d/%d %s", li.index, i, c.Text), t, b.Instrs[0].Pos())
			}
		}
	}
	// 2. havoc loop-carried values and written regions
	for _, in := range b.Instrs {
		phi, ok := in.(*ssa.Phi)
		if !ok {
			break
		}
		if phi.Comment == "rangeindex" {
			// implicit invariant of `for i := range x`: the hidden index stays in [-1, maxLen]
			// (checked on entry here and on every back edge in backEdge)
			e := fc.val(phi)
			fc.oblig("inv-init", fmt.Sprintf("loop%d/range-index in [-1, len]", li.index), and(app("<=", "(- 1)", e.S), app("<=", e.S, maxLen)), b.Instrs[0].Pos())
		}
		bound := rangeIntBound(li, phi)
		if bound != nil {
			// implicit invariant of `for i := range n` (a rotated loop: the test is at the end
			// of the body): the counter stays below n (entry and every back edge are checked)
			e := fc.val(phi)
			fc.oblig("inv-init", fmt.Sprintf("loop%d/range counter below its bound", li.index), and(app("<=", "0", e.S), app("<", e.S, fc.val(bound).S)), b.Instrs[0].Pos())
		}
		v := fc.freshVal("loop_"+phiName(phi), phi.Type())
		fc.vals[phi] = v
		fc.assume(fc.typeFacts(v, st.NA))
		if phi.Comment == "rangeindex" {
			fc.assume(and(app("<=", "(- 1)", v.S), app("<=", v.S, maxLen)))
		}
		if c, ok := counterLowerBound(li, phi); ok {
			// `for i := c; i < X; i++`: the counter never drops below its start (see typenote.go)
			fc.assume(app("<=", itoa(c), v.S))
		}
		if bound != nil {
			fc.assume(and(app("<=", "0", v.S), app("<", v.S, fc.val(bound).S)))
		}
	}
	fc.havocLoopRegions(li, st)
	na := vc.sc.fresh("NA", "Int")
	vc.sc.assert(app(">=", na, st.NA))
	st.NA = na
	// 3. assume invariants
	if spec != nil {
		env := fc.envAtLoop(li, st, nil)
		for _, c := range spec.Invariants {
			if t, ok := fc.tryEvalBool(c, env, ""); ok {
				fc.assume(t)
			}
		}
		if spec.Decreases != nil {
			m := fc.evalExpr(spec.Decreases.Expr, env)
			li.measure = vc.sc.define("measure", "Int", m.S)
		}
		for _, u := range spec.Uses {
			fc.useLemma(u, env)
		}
	}
}

// tryEvalBool evaluates a loop-invariant clause; a clause that no longer binds to the code
// (it names a variable the loop does not have any more) is reported as a failed `bind`
// obligation of its own, once, and otherwise skipped, so that the rest of the function is
// still checked (and a real defect behind it still gets its own obligation and replay).
func (fc *FnCtx) tryEvalBool(c Clause, env *Env, report string) (t Term, ok bool) {
	defer func() {
		if r := recover(); r != nil {
			se, is := r.(specErr)
			if !is {
				panic(r)
			}
			ok = false
			if report != "" {
				name := fmt.Sprintf("%s/bind/%s#0", fc.eng.shortFn(fc.fn), report)
				if len(name) > 160 {
					name = name[:160]
				}
				fc.obls = append(fc.obls, &Obligation{Name: name, Kind: "bind", Fn: fc.eng.shortFn(fc.fn), Result: "sat", Solver: "binder",
					Model: "the invariant does not bind to the code any more: " + string(se)})
			}
		}
	}()
	return fc.evalBool(c.Expr, env), true
}

func (fc *FnCtx) backEdge(li *loopInfo, from *ssa.BasicBlock, k int, st *State) {
	if fc.reach[from] == "false" {
		return
	}
	saved := fc.reach[from]
	// guard obligations by the edge condition
	ec := fc.edgeCond(from, k)
	fc.reach[from] = ec
	fc.cur = from
	defer func() { fc.reach[from] = saved }()
	spec := li.spec
	// phi values along this edge
	pi := -1
	cnt := 0
	for j, p := range li.header.Preds {
		if p == from {
			ks := succIndex(from, li.header)
			if cnt < len(ks) && ks[cnt] == k {
				pi = j
			}
			cnt++
		}
	}
	over := map[*ssa.Phi]Val{}
	for _, in := range li.header.Instrs {
		phi, ok := in.(*ssa.Phi)
		if !ok {
			break
		}
		over[phi] = fc.val(phi.Edges[pi])
	}
	pos := from.Instrs[len(from.Instrs)-1].Pos()
	if !pos.IsValid() {
		pos = li.header.Instrs[0].Pos()
	}
	for phi, v := range over {
		if phi.Comment == "rangeindex" {
			fc.oblig("inv-preserve", fmt.Sprintf("loop%d/range-index in [-1, len]", li.index), and(app("<=", "(- 1)", v.S), app("<=", v.S, maxLen)), pos)
		}
		if bound := rangeIntBound(li, phi); bound != nil {
			fc.oblig("inv-preserve", fmt.Sprintf("loop%d/range counter below its bound", li.index), and(app("<=", "0", v.S), app("<", v.S, fc.val(bound).S)), pos)
		}
	}
	if spec == nil {
		return
	}
	env := fc.envAtLoop(li, st, over)
	for i, c := range spec.Invariants {
		if t, ok := fc.tryEvalBool(c, env, ""); ok {
			fc.oblig("inv-preserve", fmt.Sprintf("loop%d/%d %s", li.index, i, c.Text), t, pos)
		}
	}
	if spec.Decreases != nil && li.measure != "" {
		m := fc.evalExpr(spec.Decreases.Expr, env)
		fc.oblig("decreases", fmt.Sprintf("loop%d %s", li.index, spec.Decreases.Text), and(app("<=", "0", li.measure), app("<", m.S, li.measure)), pos)
	}
}

// havocLoopRegions replaces every region that may be written in the loop by a
// fresh version; a scalar field written only at a loop-invariant object keeps
// all other objects' values.
// (implementation in loopframe.go)
var _ = sort.Strings

// ---------------------------------------------------------------------------

func (fc *FnCtx) execInstr(in ssa.Instruction, st *State) {
	vc := fc.vc
	switch in := in.(type) {
	case *ssa.DebugRef:
		return
	case *ssa.Alloc:
		r := vc.alloc(st)
		et := in.Type().(*types.Pointer).Elem()
		vc.initObject(st, r, et)
		fc.vals[in] = vc.ptrFromRef(r, in.Type())
	case *ssa.FieldAddr:
		p := fc.val(in.X)
		fc.nilCheck(p, in, fc.instrText(in))
		st0 := in.X.Type().Underlying().(*types.Pointer).Elem()
		fc.vals[in] = vc.fieldPtr(p.S, st0, in.Field)
	case *ssa.Field:
		x := fc.val(in.X)
		fc.vals[in] = x.Fs[in.Field]
	case *ssa.IndexAddr:
		fc.indexAddr(in, st)
	case *ssa.Index:
		fc.index(in, st)
	case *ssa.UnOp:
		fc.unop(in, st)
	case *ssa.BinOp:
		fc.vals[in] = fc.binop(in)
	case *ssa.Store:
		p := fc.val(in.Addr)
		fc.nilCheck(p, in, "")
		fc.frameCheck(p, in.Val.Type(), in, st)
		fc.storeHooks(in, st)
		fc.elemStoreHooks(in, st)
		vc.store(st, p, in.Val.Type(), fc.val(in.Val))
	case *ssa.Slice:
		fc.slice(in, st)
	case *ssa.MakeSlice:
		n := fc.val(in.Len)
		c := fc.val(in.Cap)
		fc.oblig("make-neg", fc.instrText(in), and(app("<=", "0", n.S), app("<=", n.S, c.S)), in.Pos())
		fc.makeHooks(in, n, st)
		r := vc.alloc(st)
		et := in.Type().Underlying().(*types.Slice).Elem()
		vc.initBacking(st, r, et)
		fc.vals[in] = Val{K: KSlice, T: in.Type(), Sl: &SliceV{r, "0", n.S, c.S}}
	case *ssa.Convert:
		fc.vals[in] = fc.convert(in, st)
	case *ssa.ChangeType:
		v := fc.val(in.X)
		v.T = in.Type()
		if v.K == KPtr {
			v = vc.ptrFromRefKeep(v, in.Type())
		}
		fc.vals[in] = v
	case *ssa.ChangeInterface:
		v := fc.val(in.X)
		v.T = in.Type()
		fc.vals[in] = v
	case *ssa.MakeInterface:
		fc.vals[in] = fc.makeInterface(in, st)
	case *ssa.TypeAssert:
		fc.typeAssert(in, st)
	case *ssa.Extract:
		t := fc.val(in.Tuple)
		fc.vals[in] = t.Fs[in.Index]
	case *ssa.Call:
		fc.call(in, in.Common(), st)
	case *ssa.Go:
		fc.spawn(in, st)
	case *ssa.Defer:
		if fc.loopOf(in.Block()) != nil {
			panic(unsupported("defer inside a loop"))
		}
		fc.recordDefer(in, st)
	case *ssa.RunDefers:
		fc.runDefers(in, st)
	case *ssa.MakeClosure:
		fnv := in.Fn.(*ssa.Function)
		v := Val{K: KFunc, T: in.Type(), Fn: fnv}
		for _, b := range in.Bindings {
			v.Bind = append(v.Bind, fc.val(b))
		}
		fc.vals[in] = v
	case *ssa.MakeMap:
		r := vc.alloc(st)
		fc.mapInit(st, r, in.Type())
		fc.vals[in] = Val{K: KInt, T: in.Type(), S: r}
	case *ssa.MakeChan:
		r := vc.alloc(st)
		fc.vals[in] = Val{K: KInt, T: in.Type(), S: r}
	case *ssa.Lookup:
		fc.lookup(in, st)
	case *ssa.MapUpdate:
		fc.mapUpdate(in, st)
	case *ssa.Range:
		fc.rangeInit(in, st)
	case *ssa.Next:
		fc.rangeNext(in, st)
	case *ssa.Send:
		// channel send: value escapes; no effect on modelled state
	case *ssa.Select:
		fc.selectInstr(in, st)
	case *ssa.If, *ssa.Jump:
	case *ssa.Return:
		fc.ret(in, st)
	case *ssa.Panic:
		fc.oblig("panic", "explicit panic", "false", in.Pos())
		fc.reach[fc.cur] = "false"
	case *ssa.SliceToArrayPointer:
		x := fc.val(in.X)
		al := in.Type().(*types.Pointer).Elem().Underlying().(*types.Array).Len()
		fc.oblig("slice", "slice to array pointer", app(">=", x.Sl.Len, itoa(al)), in.Pos())
		if x.Sl.Off != "0" {
			panic(unsupported("slice-to-array-pointer at non-zero offset"))
		}
		fc.vals[in] = Val{K: KPtr, T: in.Type(), S: x.Sl.Base}
	default:
		panic(unsupported(fmt.Sprintf("instruction %T", in)))
	}
}

func (vc *VC) ptrFromRefKeep(v Val, T types.Type) Val {
	v.T = T
	return v
}

func (fc *FnCtx) loopOf(b *ssa.BasicBlock) *loopInfo {
	for _, li := range fc.loops {
		if li.body[b] {
			return li
		}
	}
	return nil
}

func (fc *FnCtx) nilCheck(p Val, in ssa.Instruction, text string) {
	if p.K != KPtr {
		return
	}
	ref := p.S
	if ref == "" {
		return // interior pointers are derived from checked bases
	}
	if strings.HasPrefix(ref, "new!") {
		return
	}
	if text == "" {
		if v, ok := in.(*ssa.Store); ok {
			text = "*" + v.Addr.Name()
		} else if v, ok := in.(ssa.Value); ok {
			text = v.Name()
		}
	}
	if g, ok := fc.eng.isGlobalRef(ref); ok && g {
		return
	}
	fc.oblig("nil", text, app("not", eq(ref, "0")), posOf(in))
}

func (fc *FnCtx) indexAddr(in *ssa.IndexAddr, st *State) {
	vc := fc.vc
	x := fc.val(in.X)
	i := fc.val(in.Index)
	text := fc.instrText(in)
	switch t := in.X.Type().Underlying().(type) {
	case *types.Slice:
		fc.oblig("bounds", text, and(app("<=", "0", i.S), app("<", i.S, x.Sl.Len)), in.Pos())
		fc.vals[in] = vc.elemPtr(x.Sl.Base, plus(x.Sl.Off, i.S), t.Elem())
	case *types.Pointer:
		a := t.Elem().Underlying().(*types.Array)
		fc.nilCheck(x, in, text)
		fc.oblig("bounds", text, and(app("<=", "0", i.S), app("<", i.S, itoa(a.Len()))), in.Pos())
		fc.vals[in] = vc.elemPtr(x.S, i.S, a.Elem())
	default:
		panic(unsupported("IndexAddr on " + in.X.Type().String()))
	}
}

func plus(a, b Term) Term {
	if a == "0" {
		return b
	}
	if b == "0" {
		return a
	}
	return app("+", a, b)
}

func (fc *FnCtx) index(in *ssa.Index, st *State) {
	x := fc.val(in.X)
	i := fc.val(in.Index)
	text := fc.instrText(in)
	switch t := in.X.Type().Underlying().(type) {
	case *types.Array:
		fc.oblig("bounds", text, and(app("<=", "0", i.S), app("<", i.S, itoa(t.Len()))), in.Pos())
		if len(x.Fs) > 0 {
			// array of structs held element-wise: an ite chain over the index
			v := x.Fs[len(x.Fs)-1]
			for j := len(x.Fs) - 2; j >= 0; j-- {
				v = fc.iteVal(eq(i.S, itoa(int64(j))), x.Fs[j], v)
			}
			fc.vals[in] = v
			return
		}
		k := kindOfType(t.Elem())
		fc.vals[in] = Val{K: k, T: t.Elem(), S: app("select", x.S, i.S)}
	case *types.Basic: // string
		fc.oblig("bounds", text, and(app("<=", "0", i.S), app("<", i.S, app("slen", x.S))), in.Pos())
		v := intV(app("sat", x.S, i.S), types.Typ[types.Uint8])
		fc.assume(rangeFact(v.S, v.T))
		fc.vals[in] = v
	default:
		panic(unsupported("Index on " + in.X.Type().String()))
	}
}

func (fc *FnCtx) unop(in *ssa.UnOp, st *State) {
	vc := fc.vc
	x := fc.val(in.X)
	switch in.Op {
	case token.MUL:
		fc.nilCheck(x, in, "*"+fc.nameOf(in.X))
		if fa, ok := in.X.(*ssa.FieldAddr); ok {
			fc.fieldHooks("load", fa, []ssa.Value{fa.X}, in, st)
		}
		v := vc.load(st, x, in.Type())
		v = fc.nameVal("ld_"+in.Name(), v)
		fc.assume(fc.typeFacts(v, st.NA))
		if g, ok := in.X.(*ssa.Global); ok && v.K == KIface && isSentinelError(g) {
			// A-ERRVARS: sentinel error variables (io.EOF, errX = errors.New(...)) are non-nil and never reassigned
			fc.assume(not(eq(v.Tag, "0")))
			fc.note("sentinel error variable %s.%s assumed non-nil", g.Pkg.Pkg.Name(), g.Name())
		}
		fc.vals[in] = v
	case token.NOT:
		fc.vals[in] = boolV(not(x.S))
	case token.SUB:
		if x.K == KReal {
			fc.vals[in] = Val{K: KReal, T: in.Type(), S: app("-", x.S)}
			return
		}
		fc.vals[in] = fc.arith(in, app("-", x.S), in.Type(), "-"+fc.nameOf(in.X))
	case token.XOR:
		lo, hi, _ := intRange(in.Type())
		if lo == "0" {
			fc.vals[in] = intV(app("-", hi, x.S), in.Type())
		} else {
			fc.vals[in] = intV(app("-", app("-", x.S), "1"), in.Type())
		}
	case token.ARROW:
		v := fc.freshVal("recv", in.Type())
		fc.assume(fc.typeFacts(tupleFirst(v), st.NA))
		fc.vals[in] = v
	default:
		panic(unsupported("unary " + in.Op.String()))
	}
}

func tupleFirst(v Val) Val {
	if v.K == KTuple && len(v.Fs) > 0 {
		return v.Fs[0]
	}
	return v
}

func (fc *FnCtx) nameOf(v ssa.Value) string {
	if t, ok := fc.eng.valueText(fc.fn, v); ok {
		return t
	}
	return v.Name()
}

// arith wraps (or, under nowrap, checks) the exact integer result t of type T.
func (fc *FnCtx) arith(in ssa.Instruction, t Term, T types.Type, text string) Val {
	lo, hi, ok := intRange(T)
	if !ok {
		return intV(t, T)
	}
	if fc.nowrap {
		c := fc.vc.sc.define("ar", "Int", t)
		fc.oblig("overflow", text, and(app("<=", lo, c), app("<=", c, hi)), posOf(in))
		return intV(c, T)
	}
	return intV(fc.vc.sc.define("ar", "Int", wrapTerm(t, T)), T)
}

func wrapTerm(t Term, T types.Type) Term {
	b, ok := T.Underlying().(*types.Basic)
	if !ok {
		return t
	}
	bits, signed := intBits(b)
	if signed {
		return app("wraps", t, pow2(bits-1).String())
	}
	return app("wrapu", t, pow2(bits).String())
}

func (fc *FnCtx) slice(in *ssa.Slice, st *State) {
	x := fc.val(in.X)
	text := fc.instrText(in)
	var base, off, ln, cp Term
	isStr := false
	switch t := in.X.Type().Underlying().(type) {
	case *types.Slice:
		base, off, ln, cp = x.Sl.Base, x.Sl.Off, x.Sl.Len, x.Sl.Cap
	case *types.Pointer:
		a := t.Elem().Underlying().(*types.Array)
		fc.nilCheck(x, in, text)
		base, off, ln, cp = x.S, "0", itoa(a.Len()), itoa(a.Len())
	case *types.Basic:
		isStr = true
		ln = app("slen", x.S)
		cp = ln
	default:
		panic(unsupported("slice of " + in.X.Type().String()))
	}
	lo := "0"
	if in.Low != nil {
		lo = fc.val(in.Low).S
	}
	hi := ln
	if in.High != nil {
		hi = fc.val(in.High).S
	}
	mx := cp
	if in.Max != nil {
		mx = fc.val(in.Max).S
	}
	if isStr {
		fc.oblig("slice", text, and(app("<=", "0", lo), app("<=", lo, hi), app("<=", hi, ln)), in.Pos())
		r := fc.vc.sc.fresh("substr", "Str")
		fc.assume(eq(app("slen", r), app("-", hi, lo)))
		fc.assume(fmt.Sprintf("(forall ((i Int)) (! (=> (and (<= 0 i) (< i (- %s %s))) (= (sat %s i) (sat %s (+ %s i)))) :pattern ((sat %s i))))", hi, lo, r, x.S, lo, r))
		fc.vals[in] = Val{K: KStr, T: in.Type(), S: r}
		return
	}
	fc.oblig("slice", text, and(app("<=", "0", lo), app("<=", lo, hi), app("<=", hi, mx), app("<=", mx, cp)), in.Pos())
	fc.vals[in] = fc.nameVal("sl_"+in.Name(), Val{K: KSlice, T: in.Type(), Sl: &SliceV{base, plus(off, lo), app("-", hi, lo), app("-", mx, lo)}})
}

func (fc *FnCtx) ret(in *ssa.Return, st *State) {
	var rs []Val
	for _, r := range in.Results {
		rs = append(rs, fc.val(r))
	}
	if fc.inline {
		fc.retVals = append(fc.retVals, retInfo{fc.reach[fc.cur], st.clone(), rs})
		return
	}
	if fc.con == nil {
		return
	}
	env := fc.env(st, fc.old)
	fc.bindResults(env, rs)
	for i, c := range fc.con.Ensures {
		fc.oblig("post", fmt.Sprintf("%d %s", i, c.Text), fc.evalBool(c.Expr, env), in.Pos())
	}
	for _, t := range fc.objInvariants(st, fc.old) {
		fc.oblig("objinv", t.text, t.term, in.Pos())
	}
	// exit canary: this return must be reachable
	o := &Obligation{Name: fmt.Sprintf("%s/vacuity/return-reachable#%d", fc.eng.shortFn(fc.fn), fc.counts["retcanary"]), Kind: "vacuity", Fn: fc.eng.shortFn(fc.fn),
		Goal: not(fc.reach[fc.cur]), Pos: fc.vc.sc.pos(), VC: fc.vc, Expect: "sat"}
	fc.counts["retcanary"]++
	fc.obls = append(fc.obls, o)
}

func (fc *FnCtx) bindResults(env *Env, rs []Val) {
	res := fc.fn.Signature.Results()
	for i, r := range rs {
		if res.At(i).Name() != "" && res.At(i).Name() != "_" {
			env.vars[res.At(i).Name()] = r
		}
		if fc.con != nil && i < len(fc.con.Results) && fc.con.Results[i] != "" {
			env.vars[fc.con.Results[i]] = r
		}
		env.vars[fmt.Sprintf("ret%d", i)] = r
	}
	if len(rs) == 1 {
		env.vars["ret"] = rs[0]
	}
}
