package main

import (
	"go/ast"
	"go/parser"
	"go/token"
	"go/types"

	"golang.org/x/tools/go/ssa"
)

func parserParse(fset *token.FileSet, filename string, src []byte) (*ast.File, error) {
	return parser.ParseFile(fset, filename, src, parser.AllErrors|parser.ParseComments)
}

// storeRegions lists the region names a store of a value of type T through addr touches.
func (fc *FnCtx) storeRegionNames(addr ssa.Value, T types.Type) []string {
	var out []string
	var obj func(T types.Type)
	obj = func(T types.Type) {
		switch u := T.Underlying().(type) {
		case *types.Struct:
			owner := typeName(T)
			for i := 0; i < u.NumFields(); i++ {
				ft := u.Field(i).Type()
				if isObjectType(ft) {
					obj(ft)
					continue
				}
				for _, lf := range cellLeaves(ft) {
					out = append(out, owner+"."+u.Field(i).Name()+lf.suffix)
				}
			}
		case *types.Array:
			if isObjectType(u.Elem()) {
				obj(u.Elem())
				return
			}
			for _, lf := range cellLeaves(u.Elem()) {
				out = append(out, "elem<"+leafTypeName(u.Elem())+">"+lf.suffix)
			}
		}
	}
	if isObjectType(T) {
		obj(T)
		return out
	}
	prefix := ""
	switch a := addr.(type) {
	case *ssa.FieldAddr:
		st0 := a.X.Type().Underlying().(*types.Pointer).Elem()
		prefix = typeName(st0) + "." + structOf(st0).Field(a.Field).Name()
	case *ssa.IndexAddr:
		prefix = "elem<" + leafTypeName(T) + ">"
	case *ssa.Global:
		prefix = "g:" + a.Pkg.Pkg.Name() + "." + a.Name()
	default:
		prefix = "cell<" + leafTypeName(T) + ">"
	}
	for _, lf := range cellLeaves(T) {
		out = append(out, prefix+lf.suffix)
	}
	return out
}

// baseIndex returns the first index term (object ref / backing base) of an
// address computed outside the loop, or nil when it varies inside the loop.
func (fc *FnCtx) baseIndex(addr ssa.Value, li *loopInfo) []Term {
	inLoop := func(v ssa.Value) bool {
		if in, ok := v.(ssa.Instruction); ok {
			return li.body[in.Block()]
		}
		return false
	}
	switch a := addr.(type) {
	case *ssa.FieldAddr:
		if !inLoop(a.X) {
			if v, ok := fc.vals[a.X]; ok && v.S != "" {
				st0 := a.X.Type().Underlying().(*types.Pointer).Elem()
				fp := fc.vc.fieldPtr(v.S, st0, a.Field)
				if fp.Loc != nil {
					return []Term{fp.Loc.Idx[0]}
				}
				return []Term{fp.S}
			}
			if _, isParam := a.X.(*ssa.Parameter); isParam {
				v := fc.val(a.X)
				return []Term{v.S}
			}
		}
	case *ssa.IndexAddr:
		if !inLoop(a.X) {
			if v, ok := fc.vals[a.X]; ok {
				if v.K == KSlice && !isObjectType(a.Type().(*types.Pointer).Elem()) {
					return []Term{v.Sl.Base}
				}
				if v.K == KPtr && v.S != "" && !isObjectType(a.Type().(*types.Pointer).Elem()) {
					return []Term{v.S}
				}
			}
		}
	default:
		if !inLoop(addr) {
			if v, ok := fc.vals[addr]; ok {
				if v.Loc != nil && len(v.Loc.Idx) > 0 {
					return []Term{v.Loc.Idx[0]}
				}
				if v.S != "" && v.Loc == nil && !isObjectType(v.T.Underlying().(*types.Pointer).Elem()) {
					return []Term{v.S}
				}
			}
		}
	}
	return nil
}

// instrWrites reports the regions (and ghosts) an instruction in a loop body may write.
func (eng *Engine) instrWrites(fc *FnCtx, in ssa.Instruction, li *loopInfo, region func(string, []Term), ghost func(string)) {
	switch in := in.(type) {
	case *ssa.Store:
		names := fc.storeRegionNames(in.Addr, in.Val.Type())
		idx := fc.baseIndex(in.Addr, li)
		if isObjectType(in.Val.Type()) {
			idx = nil
			if v, ok := fc.vals[in.Addr]; ok && v.S != "" {
				if ii, isInstr := in.Addr.(ssa.Instruction); !isInstr || !li.body[ii.Block()] {
					if _, isStruct := in.Val.Type().Underlying().(*types.Struct); isStruct && !hasNestedObjects(in.Val.Type()) {
						idx = []Term{v.S}
					}
				}
			}
		}
		for _, n := range names {
			fc.ensureRegion(n, in.Addr, in.Val.Type())
			region(n, idx)
		}
	case *ssa.MapUpdate:
		for _, n := range fc.mapRegionNames(in.Map.Type()) {
			region(n, nil)
		}
	case ssa.CallInstruction:
		cc := in.Common()
		if b, ok := cc.Value.(*ssa.Builtin); ok {
			switch b.Name() {
			case "copy":
				et := cc.Args[0].Type().Underlying().(*types.Slice).Elem()
				for _, lf := range cellLeaves(et) {
					n := "elem<" + leafTypeName(et) + ">" + lf.suffix
					var idx []Term
					if v, ok := fc.vals[cc.Args[0]]; ok && v.K == KSlice {
						if ii, isInstr := cc.Args[0].(ssa.Instruction); !isInstr || !li.body[ii.Block()] {
							idx = []Term{v.Sl.Base}
						}
					}
					region(n, idx)
				}
			case "append":
				et := cc.Args[0].Type().Underlying().(*types.Slice).Elem()
				if !isObjectType(et) {
					for _, lf := range cellLeaves(et) {
						region("elem<"+leafTypeName(et)+">"+lf.suffix, nil)
					}
				}
			case "delete":
				for _, n := range fc.mapRegionNames(cc.Args[0].Type()) {
					region(n, nil)
				}
			}
			return
		}
		if _, isGo := in.(*ssa.Go); isGo {
			fc.hookGhosts(cc, ghost)
			return
		}
		fc.hookGhosts(cc, ghost)
		var con *Contract
		var callee *ssa.Function
		if cc.IsInvoke() {
			con = eng.cs.Funcs["iface:"+typeName(cc.Value.Type())+"."+cc.Method.Name()]
		} else if f := cc.StaticCallee(); f != nil {
			con = eng.contractFor(f)
			callee = f
		} else if u, ok := cc.Value.(*ssa.UnOp); ok {
			if fa, ok := u.X.(*ssa.FieldAddr); ok {
				st0 := fa.X.Type().Underlying().(*types.Pointer).Elem()
				con = eng.cs.Funcs["fnfield:"+typeName(st0)+"."+structOf(st0).Field(fa.Field).Name()]
			}
		}
		if con == nil {
			if callee != nil && eng.inlinable(callee) {
				// inlined helper: its own stores count
				for _, b := range callee.Blocks {
					for _, i2 := range b.Instrs {
						if s, ok := i2.(*ssa.Store); ok {
							for _, n := range fc.storeRegionNames(s.Addr, s.Val.Type()) {
								fc.ensureRegion(n, s.Addr, s.Val.Type())
								region(n, nil)
							}
						} else if _, ok := i2.(ssa.CallInstruction); ok {
							eng.instrWrites(fc, i2, li, func(n string, _ []Term) { region(n, nil) }, ghost)
						}
					}
				}
				return
			}
			// unknown callee: slices passed may be overwritten
			for _, a := range cc.Args {
				if s, ok := a.Type().Underlying().(*types.Slice); ok && !isObjectType(s.Elem()) {
					for _, lf := range cellLeaves(s.Elem()) {
						region("elem<"+leafTypeName(s.Elem())+">"+lf.suffix, nil)
					}
				}
			}
			return
		}
		if len(con.Modifies) == 0 {
			return
		}
		// evaluate the callee's frame with placeholder arguments to learn region names
		ci := calleeInfo{sig: cc.Signature(), con: con, fn: callee}
		allOutside := true
		var args []ssa.Value
		if cc.IsInvoke() {
			args = append(args, cc.Value)
			ci.isIface = true
		} else if callee == nil {
			if u, ok := cc.Value.(*ssa.UnOp); ok {
				if fa, ok := u.X.(*ssa.FieldAddr); ok {
					args = append(args, fa.X)
					ci.isIface = true
				}
			}
		}
		args = append(args, cc.Args...)
		for _, a := range args {
			if v, ok := fc.vals[a]; ok {
				if ii, isInstr := a.(ssa.Instruction); isInstr && li.body[ii.Block()] {
					allOutside = false
				}
				ci.args = append(ci.args, v)
			} else if _, isConst := a.(*ssa.Const); isConst {
				ci.args = append(ci.args, fc.val(a))
			} else {
				allOutside = false
				ci.args = append(ci.args, fc.freshVal("ph", a.Type()))
			}
		}
		env := fc.calleeEnv(ci, fc.vc.st, fc.vc.st)
		for _, m := range con.Modifies {
			for _, t := range fc.evalTargets(m.Expr, env) {
				switch {
				case t.Any:
					for n := range eng.regions {
						region(n, nil)
					}
					for g := range eng.cs.Ghosts {
						ghost(g)
					}
				case t.Ghost != "":
					ghost(t.Ghost)
				case t.Whole || !allOutside:
					region(t.Region, nil)
				default:
					region(t.Region, t.Idx[:1])
				}
			}
		}
	}
}

func hasNestedObjects(T types.Type) bool {
	s := structOf(T)
	if s == nil {
		return true
	}
	for i := 0; i < s.NumFields(); i++ {
		if isObjectType(s.Field(i).Type()) {
			return true
		}
	}
	return false
}

// ensureRegion registers a region's sort before it is first read or written.
func (fc *FnCtx) ensureRegion(name string, addr ssa.Value, T types.Type) {
	if _, ok := fc.eng.regions[name]; ok {
		return
	}
	// derive arity and leaf sort from the name's shape
	nidx := 1
	if len(name) > 5 && name[:5] == "elem<" {
		nidx = 2
	}
	if len(name) > 2 && name[:2] == "g:" {
		nidx = 0
	}
	leaf := "Int"
	var find func(T types.Type, suffixOf string) bool
	find = func(T types.Type, n string) bool { return false }
	_ = find
	// leaf sort: from T when T is not an object; object stores are registered on first real access
	if !isObjectType(T) {
		for _, lf := range cellLeaves(T) {
			if len(name) >= len(lf.suffix) && name[len(name)-len(lf.suffix):] == lf.suffix {
				leaf = leafSort(lf.kind)
			}
		}
		fc.eng.regions[name] = regionInfo{nidx, leaf}
		return
	}
	// object: find the field by name
	var walk func(T types.Type)
	walk = func(T types.Type) {
		switch u := T.Underlying().(type) {
		case *types.Struct:
			owner := typeName(T)
			for i := 0; i < u.NumFields(); i++ {
				ft := u.Field(i).Type()
				if isObjectType(ft) {
					walk(ft)
					continue
				}
				for _, lf := range cellLeaves(ft) {
					if owner+"."+u.Field(i).Name()+lf.suffix == name {
						fc.eng.regions[name] = regionInfo{1, leafSort(lf.kind)}
					}
				}
			}
		case *types.Array:
			if isObjectType(u.Elem()) {
				walk(u.Elem())
				return
			}
			for _, lf := range cellLeaves(u.Elem()) {
				if "elem<"+leafTypeName(u.Elem())+">"+lf.suffix == name {
					fc.eng.regions[name] = regionInfo{2, leafSort(lf.kind)}
				}
			}
		}
	}
	walk(T)
}

// ---------------------------------------------------------------------------
// inlining of small contract-less same-module helpers

func (fc *FnCtx) inlineCall(ci calleeInfo, in ssa.Instruction, st *State, resT types.Type) Val {
	sub := &FnCtx{vc: fc.vc, eng: fc.eng, fn: ci.fn, con: nil, pkg: fc.eng.pkgs[ci.fn.Pkg.Pkg.Path()], vals: map[ssa.Value]Val{},
		reach: map[*ssa.BasicBlock]Term{}, out: map[*ssa.BasicBlock]*State{}, done: map[*ssa.BasicBlock]bool{},
		counts: fc.counts, params: map[string]Val{}, unknownCallees: fc.unknownCallees, depth: fc.depth + 1, inline: true,
		old: fc.old, na0: fc.na0, nowrap: fc.nowrap}
	sub.findLoops()
	sub.frameParent = fc
	for i, p := range ci.fn.Params {
		sub.vals[p] = ci.args[i]
		sub.params[p.Name()] = ci.args[i]
	}
	for i, fv := range ci.fn.FreeVars {
		if i < len(ci.binds) {
			sub.vals[fv] = ci.binds[i]
		}
	}
	entry := ci.fn.Blocks[0]
	start := st.clone()
	for _, b := range sub.order() {
		if b == entry {
			sub.cur = b
			sub.reach[b] = fc.reach[fc.cur]
		}
		sub.execBlock(b, start)
	}
	fc.obls = append(fc.obls, sub.obls...)
	fc.notes = append(fc.notes, sub.notes...)
	fc.note("inlined helper %s", ci.name)
	// merge return states
	if len(sub.retVals) == 0 {
		fc.reach[fc.cur] = "false"
		return Val{K: KUnit}
	}
	var conds []Term
	for _, r := range sub.retVals {
		conds = append(conds, r.reach)
	}
	// merged heap
	tmp := &FnCtx{vc: fc.vc, eng: fc.eng, out: map[*ssa.BasicBlock]*State{}, reach: map[*ssa.BasicBlock]Term{}}
	var es []inEdge
	fake := make([]*ssa.BasicBlock, len(sub.retVals))
	for i, r := range sub.retVals {
		fake[i] = &ssa.BasicBlock{Index: i}
		tmp.out[fake[i]] = r.st
		es = append(es, inEdge{pred: fake[i], cond: r.reach})
	}
	merged := tmp.mergeStates(es)
	*st = *merged
	fc.vc.st = st
	// the call returns only if some return was reached
	fc.assume(or(conds...))
	if resT == nil {
		return Val{K: KUnit}
	}
	nres := ci.sig.Results().Len()
	if nres == 1 {
		var vs []Val
		for _, r := range sub.retVals {
			vs = append(vs, r.vals[0])
		}
		return fc.nameVal("inl", fc.mergeVals(vs, conds))
	}
	tup := Val{K: KTuple, T: resT}
	for k := 0; k < nres; k++ {
		var vs []Val
		for _, r := range sub.retVals {
			vs = append(vs, r.vals[k])
		}
		tup.Fs = append(tup.Fs, fc.nameVal("inl", fc.mergeVals(vs, conds)))
	}
	return tup
}
