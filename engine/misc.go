package main

import (
	"fmt"
	"go/ast"
	"go/parser"
	"go/token"
	"go/types"
	"sync"

	"golang.org/x/tools/go/ssa"
)

func parserParse(fset *token.FileSet, filename string, src []byte) (*ast.File, error) {
	return parser.ParseFile(fset, filename, src, parser.AllErrors|parser.ParseComments)
}

// storeRegionNames lists the region names a store of a value of type T through addr touches.
func (fc *FnCtx) storeRegionNames(addr ssa.Value, T types.Type) []string {
	var out []string
	var obj func(T types.Type)
	obj = func(T types.Type) {
		switch u := T.Underlying().(type) {
		case *types.Struct:
			owner := typeName(T)
			for i := 0; i < u.NumFields(); i++ {
				ft := u.Field(i).Type()
				if isObjectType(ft) {
					obj(ft)
					continue
				}
				for _, lf := range cellLeaves(ft) {
					out = append(out, owner+"."+u.Field(i).Name()+lf.suffix)
				}
			}
		case *types.Array:
			if isObjectType(u.Elem()) {
				obj(u.Elem())
				return
			}
			for _, lf := range cellLeaves(u.Elem()) {
				out = append(out, "elem<"+leafTypeName(u.Elem())+">"+lf.suffix)
			}
		}
	}
	if isObjectType(T) {
		obj(T)
		return out
	}
	prefix := ""
	switch a := addr.(type) {
	case *ssa.FieldAddr:
		st0 := a.X.Type().Underlying().(*types.Pointer).Elem()
		prefix = typeName(st0) + "." + structOf(st0).Field(a.Field).Name()
	case *ssa.IndexAddr:
		prefix = "elem<" + leafTypeName(T) + ">"
	case *ssa.Global:
		prefix = "g:" + a.Pkg.Pkg.Name() + "." + a.Name()
	default:
		prefix = "cell<" + leafTypeName(T) + ">"
	}
	for _, lf := range cellLeaves(T) {
		out = append(out, prefix+lf.suffix)
	}
	return out
}

func hasNestedObjects(T types.Type) bool {
	s := structOf(T)
	if s == nil {
		return true
	}
	for i := 0; i < s.NumFields(); i++ {
		if isObjectType(s.Field(i).Type()) {
			return true
		}
	}
	return false
}

// ensureRegion registers a region's sort before it is first read or written.
func (fc *FnCtx) ensureRegion(name string, addr ssa.Value, T types.Type) {
	if _, ok := fc.eng.regions[name]; ok {
		return
	}
	nidx := 1
	if len(name) > 5 && name[:5] == "elem<" {
		nidx = 2
	}
	if len(name) > 2 && name[:2] == "g:" {
		nidx = 0
	}
	if !isObjectType(T) {
		leaf := "Int"
		for _, lf := range cellLeaves(T) {
			if len(name) >= len(lf.suffix) && name[len(name)-len(lf.suffix):] == lf.suffix {
				leaf = leafSort(lf.kind)
			}
		}
		fc.eng.regions[name] = regionInfo{nidx, leaf}
		return
	}
	var walk func(T types.Type)
	walk = func(T types.Type) {
		switch u := T.Underlying().(type) {
		case *types.Struct:
			owner := typeName(T)
			for i := 0; i < u.NumFields(); i++ {
				ft := u.Field(i).Type()
				if isObjectType(ft) {
					walk(ft)
					continue
				}
				for _, lf := range cellLeaves(ft) {
					if owner+"."+u.Field(i).Name()+lf.suffix == name {
						fc.eng.regions[name] = regionInfo{1, leafSort(lf.kind)}
					}
				}
			}
		case *types.Array:
			if isObjectType(u.Elem()) {
				walk(u.Elem())
				return
			}
			for _, lf := range cellLeaves(u.Elem()) {
				if "elem<"+leafTypeName(u.Elem())+">"+lf.suffix == name {
					fc.eng.regions[name] = regionInfo{2, leafSort(lf.kind)}
				}
			}
		}
	}
	walk(T)
}

// ---------------------------------------------------------------------------
// inlining of small contract-less helpers

func (fc *FnCtx) inlineCall(ci calleeInfo, in ssa.Instruction, st *State, resT types.Type) Val {
	var pkg *PkgInfo
	if ci.fn.Pkg != nil {
		pkg = fc.eng.pkgs[ci.fn.Pkg.Pkg.Path()]
	}
	sub := &FnCtx{vc: fc.vc, eng: fc.eng, fn: ci.fn, con: nil, pkg: pkg, vals: map[ssa.Value]Val{},
		reach: map[*ssa.BasicBlock]Term{}, out: map[*ssa.BasicBlock]*State{}, done: map[*ssa.BasicBlock]bool{},
		counts: fc.counts, params: map[string]Val{}, unknownCallees: fc.unknownCallees, depth: fc.depth + 1, inline: true,
		old: fc.old, na0: fc.na0, nowrap: fc.nowrap, frameParent: fc, loopSpecBase: -1, callSite: in, callBlock: fc.cur}
	if base, ok := fc.root().loopHelpers[in]; ok && fc == fc.root() {
		sub.loopSpecBase = base
	}
	sub.findLoops()
	sub.noteTypes(ci.fn)
	for i, p := range ci.fn.Params {
		sub.vals[p] = ci.args[i]
		sub.params[p.Name()] = ci.args[i]
	}
	for i, fv := range ci.fn.FreeVars {
		if i < len(ci.binds) {
			sub.vals[fv] = ci.binds[i]
		}
	}
	entry := ci.fn.Blocks[0]
	start := st.clone()
	sub.cur = entry
	sub.reach[entry] = fc.reach[fc.cur]
	for _, b := range sub.order() {
		sub.execBlock(b, start)
	}
	fc.vc.st = st
	fc.obls = append(fc.obls, sub.obls...)
	for _, n := range sub.notes {
		fc.note("%s", n)
	}
	fc.note("inlined helper %s", ci.name)
	if len(sub.retVals) == 0 {
		fc.reach[fc.cur] = "false"
		return Val{K: KUnit}
	}
	var conds []Term
	for _, r := range sub.retVals {
		conds = append(conds, r.reach)
	}
	tmp := &FnCtx{vc: fc.vc, eng: fc.eng, out: map[*ssa.BasicBlock]*State{}, reach: map[*ssa.BasicBlock]Term{}}
	var es []inEdge
	for i, r := range sub.retVals {
		fake := &ssa.BasicBlock{Index: i}
		tmp.out[fake] = r.st
		es = append(es, inEdge{pred: fake, cond: r.reach})
	}
	merged := tmp.mergeStates(es)
	*st = *merged
	// the call returns only if some return was reached (otherwise it panicked, which has its own obligation)
	fc.assume(or(conds...))
	if resT == nil {
		return Val{K: KUnit}
	}
	nres := ci.sig.Results().Len()
	if nres == 1 {
		var vs []Val
		for _, r := range sub.retVals {
			vs = append(vs, r.vals[0])
		}
		return fc.nameVal("inl", fc.mergeVals(vs, conds))
	}
	tup := Val{K: KTuple, T: resT}
	for k := 0; k < nres; k++ {
		var vs []Val
		for _, r := range sub.retVals {
			vs = append(vs, r.vals[k])
		}
		tup.Fs = append(tup.Fs, fc.nameVal("inl", fc.mergeVals(vs, conds)))
	}
	return tup
}

var axMu sync.Mutex

func (eng *Engine) markAxiom(name, text string) {
	axMu.Lock()
	eng.usedAxioms[name] = text
	axMu.Unlock()
}

func fmtAny(v any) string { return fmt.Sprint(v) }

// isSentinelError: a package-level variable of type error named like a sentinel (EOF, ErrX, errX).
func isSentinelError(g *ssa.Global) bool {
	pt, ok := g.Type().(*types.Pointer)
	if !ok || !types.IsInterface(pt.Elem()) || pt.Elem().String() != "error" {
		return false
	}
	n := g.Name()
	return n == "EOF" || (len(n) > 3 && (n[:3] == "Err" || n[:3] == "err"))
}
