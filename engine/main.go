package main

import (
	"encoding/json"
	"flag"
	"fmt"
	"go/token"
	"os"
	"path/filepath"
	"sort"
	"strings"
	"time"

	"golang.org/x/tools/go/ssa"
)

type PropConfig struct {
	Load           []string `json:"load"`
	NotDecided     []string `json:"not_decided"`
	Assumptions    []string `json:"assumptions"`
	Bounded        []string `json:"bounded"`
	MinObligations int      `json:"min_obligations"`
}

var verifRoot = "/verif"

func main() {
	if len(os.Args) < 2 {
		fmt.Fprintln(os.Stderr, "usage: govc check <property> [quick|thorough] | govc dump <pkg> <func>")
		os.Exit(2)
	}
	if v := os.Getenv("VERIF_ROOT"); v != "" {
		verifRoot = v
	}
	switch os.Args[1] {
	case "check":
		fs := flag.NewFlagSet("check", flag.ExitOnError)
		repo := fs.String("repo", "/repo", "repository root")
		overlayFile := fs.String("overlay", "", "JSON file mapping paths to replacement files (mutants)")
		only := fs.String("only", "", "verify only functions whose name contains this")
		noEvidence := fs.Bool("no-evidence", false, "do not write the evidence file")
		keep := fs.Bool("keep", false, "keep query files")
		verbose := fs.Bool("v", false, "verbose")
		fs.Parse(os.Args[2:])
		args := fs.Args()
		if len(args) < 1 {
			fmt.Fprintln(os.Stderr, "check: property id required")
			os.Exit(2)
		}
		tier := "quick"
		if len(args) > 1 {
			tier = args[1]
		}
		if t := os.Getenv("VERIF_TIER"); t != "" && len(args) < 2 {
			tier = t
		}
		os.Exit(runCheck(args[0], tier, *repo, *overlayFile, *only, !*noEvidence, *keep, *verbose))
	default:
		fmt.Fprintln(os.Stderr, "unknown command", os.Args[1])
		os.Exit(2)
	}
}

func loadProps() map[string]*PropConfig {
	data, err := os.ReadFile(filepath.Join(verifRoot, "props.json"))
	if err != nil {
		fmt.Fprintln(os.Stderr, "props.json:", err)
		os.Exit(2)
	}
	var m map[string]*PropConfig
	if err := json.Unmarshal(data, &m); err != nil {
		fmt.Fprintln(os.Stderr, "props.json:", err)
		os.Exit(2)
	}
	return m
}

func hasProp(ps []string, id string) bool {
	for _, p := range ps {
		if p == id || p == "*" {
			return true
		}
	}
	return false
}

type fnReport struct {
	Name        string   `json:"name"`
	Instrs      int      `json:"ssa_instructions"`
	Obligations int      `json:"obligations"`
	InSubset    bool     `json:"fully_in_subset"`
	Reason      string   `json:"outside_subset_reason,omitempty"`
	Notes       []string `json:"notes,omitempty"`
	Unknown     []string `json:"unknown_callees,omitempty"`
	Trusted     bool     `json:"trusted,omitempty"`
}

func runCheck(prop, tier, repo, overlayFile, only string, writeEvidence, keep, verbose bool) int {
	start := time.Now()
	props := loadProps()
	pc := props[prop]
	if pc == nil {
		fmt.Fprintf(os.Stderr, "no configuration for property %s\n", prop)
		return 2
	}
	eng := newEngine()
	eng.fset = token.NewFileSet()
	eng.repo = repo
	eng.prop = prop
	var overlay map[string][]byte
	if overlayFile != "" {
		overlay = map[string][]byte{}
		data, err := os.ReadFile(overlayFile)
		if err != nil {
			fmt.Fprintln(os.Stderr, err)
			return 2
		}
		var m map[string]string
		json.Unmarshal(data, &m)
		for k, v := range m {
			b, err := os.ReadFile(v)
			if err != nil {
				fmt.Fprintln(os.Stderr, err)
				return 2
			}
			overlay[k] = b
			if eng.overlayFiles == nil {
				eng.overlayFiles = map[string]string{}
			}
			eng.overlayFiles[k] = v
		}
	}
	if err := eng.load(repo, pc.Load, overlay); err != nil {
		fmt.Fprintln(os.Stderr, "load:", err)
		fmt.Printf("VIOLATION property=%s replay=%s tooling: packages do not load (%v) no-failing-input-found\n", prop, filepath.Join(verifRoot, "replays", prop+"-load.json"), err)
		return 1
	}
	eng.readExterns(filepath.Join(verifRoot, "contracts", "extern"))
	eng.readContracts(filepath.Join(verifRoot, "contracts", "repo"))
	for n, u := range eng.cs.UFs {
		eng.ufs[n] = u
	}
	if len(eng.cs.Errors) > 0 {
		for _, e := range eng.cs.Errors {
			fmt.Fprintln(os.Stderr, "contract error:", e)
		}
		return 2
	}
	loadT := time.Since(start).Seconds()

	var obls []*Obligation
	var reports []fnReport
	var keys []string
	for k := range eng.cs.Funcs {
		keys = append(keys, k)
	}
	sort.Strings(keys)
	for _, k := range keys {
		con := eng.cs.Funcs[k]
		if con.Kind != "func" || !hasProp(con.Props, prop) {
			continue
		}
		if only != "" && !strings.Contains(con.Key, only) {
			continue
		}
		fn0 := eng.findFunction(con.PkgPath, con.Key)
		short := shortenPaths(con.PkgPath) + "." + con.Key
		if fn0 == nil {
			obls = append(obls, &Obligation{Name: short + "/bind/function-exists#0", Kind: "bind", Fn: short, Result: "sat", Solver: "binder",
				Model: fmt.Sprintf("contract %s:%d names function %s which does not exist in package %s", con.File, con.Line, con.Key, con.PkgPath)})
			continue
		}
		// a generic function or method is verified on every closed instance the program has
		fns := []*ssa.Function{fn0}
		if fn0.Origin() != nil {
			fns = eng.findInstances(con.PkgPath, con.Key)
		}
		for _, fn := range fns {
		rep := fnReport{Name: eng.shortFn(fn), InSubset: true, Trusted: con.Trusted}
		for _, b := range fn.Blocks {
			rep.Instrs += len(b.Instrs)
		}
		if con.Trusted {
			reports = append(reports, rep)
			continue
		}
		fc, err := eng.safeVerify(fn, con)
		if err != nil {
			rep.InSubset = false
			rep.Reason = err.Error()
			obls = append(obls, &Obligation{Name: rep.Name + "/subset/function-in-verifiable-subset#0", Kind: "subset", Fn: rep.Name, Result: "unknown", Solver: "generator", Model: err.Error()})
			reports = append(reports, rep)
			continue
		}
		rep.Obligations = len(fc.obls)
		rep.Notes = fc.notes
		for u := range fc.unknownCallees {
			rep.Unknown = append(rep.Unknown, u)
		}
		sort.Strings(rep.Unknown)
		reports = append(reports, rep)
		obls = append(obls, fc.obls...)
		}
	}
	// lemmas
	lemObls := eng.lemmaObligations(prop)
	obls = append(obls, lemObls...)
	obls = append(obls, eng.structuralObligations(prop)...)
	if only == "" {
		giObls, giReps := eng.globalInvObligations(prop)
		obls = append(obls, giObls...)
		reports = append(reports, giReps...)
	}

	timeout := 45 // quick: 3 s for the default solver (sliced, then full), then all configurations raced for 45 s
	if tier == "thorough" {
		timeout = 180
	}
	workdir := filepath.Join(verifRoot, ".work", fmt.Sprintf("%s-%d", prop, os.Getpid()))
	os.RemoveAll(workdir)
	var todo []*Obligation
	for _, o := range obls {
		if o.Result == "" {
			todo = append(todo, o)
		}
	}
	dischargeAll(todo, workdir, timeout, tier == "thorough", 14)
	if !keep {
		defer os.RemoveAll(workdir)
	}
	saveLocals()
	return eng.report(prop, tier, pc, obls, reports, writeEvidence, verbose, start, loadT)
}

func (eng *Engine) safeVerify(fn *ssa.Function, con *Contract) (fc *FnCtx, err error) {
	defer func() {
		if r := recover(); r != nil {
			switch x := r.(type) {
			case specErr:
				err = fmt.Errorf("contract error in %s: %s", con.Key, string(x))
			case unsupported:
				err = fmt.Errorf("outside subset: %s", string(x))
			default:
				panic(r)
			}
		}
	}()
	pkg := eng.pkgs[con.PkgPath]
	if len(fn.Blocks) == 0 && fn.Pkg != nil {
		fn.Pkg.Build() // package loaded only as a dependency
	}
	if len(fn.Blocks) == 0 {
		return nil, fmt.Errorf("outside subset: function %s has no body", fn)
	}
	return eng.verifyFunction(fn, con, pkg)
}

// lemmaObligations builds pure goals for the lemmas tagged with prop.
func (eng *Engine) lemmaObligations(prop string) []*Obligation {
	var out []*Obligation
	for _, lm := range eng.cs.Lemmas {
		if lm.Axiom || !hasProp(lm.Props, prop) {
			continue
		}
		vc := newVC(eng)
		fc := &FnCtx{vc: vc, eng: eng, pkg: eng.pkgs[lm.PkgPath], vals: map[ssa.Value]Val{}, reach: map[*ssa.BasicBlock]Term{}, counts: map[string]int{}, params: map[string]Val{}}
		st := &State{Heap: map[string]Term{}, Gh: map[string]Term{}, NA: vc.sc.declare("NA@0", "Int")}
		fc.old = st
		vc.st = st
		name := "lemma." + lm.Name
		func() {
			defer func() {
				if r := recover(); r != nil {
					out = append(out, &Obligation{Name: name + "/lemma/" + lm.Name + "#0", Kind: "lemma", Fn: name, Result: "unknown", Solver: "generator", Model: fmt.Sprint(r)})
				}
			}()
			fc.lemmaBeingProved = lm.Name // a lemma is never its own hypothesis; earlier lemmas may be used
			fc.emitAxioms()
			env := fc.env(st, st)
			for n, v := range fc.lemmaParams(lm, st) {
				env.vars[n] = v
			}
			out = append(out, &Obligation{Name: name + "/vacuity/axioms-satisfiable#0", Kind: "vacuity", Fn: name, Goal: "false", Pos: vc.sc.pos(), VC: vc, Expect: "sat"})
			text := lm.Clause.Text
			if len(text) > 90 {
				text = text[:90]
			}
			if lm.Induct == "" {
				g := fc.evalBool(lm.Clause.Expr, env)
				out = append(out, &Obligation{Name: name + "/lemma/" + text + "#0", Kind: "lemma", Fn: name, Goal: g, Pos: vc.sc.pos(), VC: vc})
				return
			}
			n, ok := env.vars[lm.Induct]
			if !ok || n.K != KInt {
				panic(specErr("lemma " + lm.Name + ": induction variable must be an integer parameter"))
			}
			// base: P(0); step: n >= 0 && P(n) ==> P(n+1)
			base := fc.evalBool(lm.Clause.Expr, env.with(lm.Induct, intV("0", n.T)))
			out = append(out, &Obligation{Name: name + "/lemma/base " + text + "#0", Kind: "lemma", Fn: name, Goal: base, Pos: vc.sc.pos(), VC: vc})
			hyp := fc.evalBool(lm.Clause.Expr, env)
			step := fc.evalBool(lm.Clause.Expr, env.with(lm.Induct, intV(app("+", n.S, "1"), n.T)))
			out = append(out, &Obligation{Name: name + "/lemma/step " + text + "#0", Kind: "lemma", Fn: name, Goal: implies(and(app(">=", n.S, "0"), hyp), step), Pos: vc.sc.pos(), VC: vc})
		}()
	}
	return out
}

func (fc *FnCtx) emitAxioms() {
	st := &State{Heap: map[string]Term{}, Gh: map[string]Term{}, NA: "0"}
	for _, lm := range fc.eng.cs.Lemmas {
		if !lm.Axiom && len(lm.Params) == 0 {
			continue // closed lemmas are goals only
		}
		if !lm.Axiom && lm.Name == fc.lemmaBeingProved {
			break // lemmas may use the ones stated before them, never themselves or later ones
		}
		save := fc.pkg
		if lm.PkgPath != "" {
			fc.pkg = fc.eng.pkgs[lm.PkgPath]
		}
		var t Term
		if len(lm.Params) == 0 {
			t = fc.evalBool(lm.Clause.Expr, &Env{fc: fc, vars: map[string]Val{}, cur: st, old: st})
		} else if lm.Axiom {
			fc.pkg = save
			continue // parameterised axioms are only used through explicit `use` instances
		} else {
			if os.Getenv("VERIF_LEMMA_FACTS") == "off" {
				// (debugging aid) proved lemmas then enter a VC only through `use` instances
				fc.pkg = save
				continue
			}
			t = fc.lemmaAsFact(lm)
		}
		fc.pkg = save
		if t == "true" {
			continue
		}
		if len(lm.Params) == 0 {
			var ufNames []string
			for n := range fc.eng.ufs {
				ufNames = append(ufNames, sym(n))
			}
			t = patternedAxiom(t, ufNames)
		}
		pos := fc.vc.sc.pos()
		fc.vc.sc.assert(t)
		// the axiom is included in a query only when one of its uninterpreted
		// functions occurs in the rest of that query (see Obligation.query)
		var syms []string
		for n := range fc.eng.ufs {
			if strings.Contains(t, "("+sym(n)+" ") {
				syms = append(syms, sym(n))
			}
		}
		for g := range fc.eng.cs.Ghosts {
			if gs := sym("ghost:" + g + "@0"); strings.Contains(t, gs) {
				syms = append(syms, gs)
			}
		}
		for _, rd := range fc.vc.recDefs {
			if rd.fname != "" && strings.Contains(t, "("+rd.fname+" ") {
				syms = append(syms, rd.fname)
			}
		}
		if fc.vc.axLines == nil {
			fc.vc.axLines = map[int]axLine{}
		}
		fc.vc.axLines[pos] = axLine{lm.Name, lm.Clause.Text, syms}
	}
}

type axLine struct {
	name, text string
	syms       []string
}
