package main

import (
	"fmt"
	"go/constant"
	"go/token"
	"go/types"
	"math/big"

	"golang.org/x/tools/go/ssa"
)

func constOf(v ssa.Value) (*big.Int, bool) {
	c, ok := v.(*ssa.Const)
	if !ok || c.Value == nil || c.Value.Kind() != constant.Int {
		return nil, false
	}
	b, ok := new(big.Int).SetString(c.Value.ExactString(), 10)
	return b, ok
}

// maskRuns decomposes a non-negative constant into runs of contiguous 1 bits [lo,hi).
func maskRuns(m *big.Int) [][2]uint {
	var runs [][2]uint
	n := uint(m.BitLen())
	i := uint(0)
	for i < n {
		if m.Bit(int(i)) == 1 {
			j := i
			for j < n && m.Bit(int(j)) == 1 {
				j++
			}
			runs = append(runs, [2]uint{i, j})
			i = j
		} else {
			i++
		}
	}
	return runs
}

// andConst returns x & m exactly, for constant m >= 0 (x taken modulo 2^k, so
// two's-complement negatives behave correctly).
func andConst(x Term, m *big.Int) Term {
	if m.Sign() == 0 {
		return "0"
	}
	var parts []Term
	for _, r := range maskRuns(m) {
		t := app("mod", x, pow2(r[1]).String())
		if r[0] > 0 {
			t = app("*", app("div", t, pow2(r[0]).String()), pow2(r[0]).String())
		}
		parts = append(parts, t)
	}
	if len(parts) == 1 {
		return parts[0]
	}
	return app("+", parts...)
}

func (fc *FnCtx) binop(in *ssa.BinOp) Val {
	x, y := fc.val(in.X), fc.val(in.Y)
	T := in.Type()
	text := fc.instrText(in)
	if text == "" {
		text = in.Name()
	}
	sc := fc.vc.sc
	switch in.Op {
	case token.EQL:
		return boolV(fc.valEq(x, y))
	case token.NEQ:
		return boolV(not(fc.valEq(x, y)))
	}
	if x.K == KBool {
		switch in.Op {
		case token.AND:
			return boolV(and(x.S, y.S))
		case token.OR:
			return boolV(or(x.S, y.S))
		case token.XOR:
			return boolV(app("xor", x.S, y.S))
		}
	}
	if x.K == KStr {
		switch in.Op {
		case token.ADD:
			sc.declareFun("strcat", []string{"Str", "Str"}, "Str")
			r := sc.define("concat", "Str", app("strcat", x.S, y.S))
			fc.assume(eq(app("slen", r), app("+", app("slen", x.S), app("slen", y.S))))
			fc.assume(fmt.Sprintf("(forall ((i Int)) (! (= (sat %s i) (ite (< i (slen %s)) (sat %s i) (sat %s (- i (slen %s))))) :pattern ((sat %s i))))", r, x.S, x.S, y.S, x.S, r))
			return Val{K: KStr, T: T, S: r}
		case token.LSS, token.LEQ, token.GTR, token.GEQ:
			sc.declareFun("strlt", []string{"Str", "Str"}, "Bool")
			switch in.Op {
			case token.LSS:
				return boolV(app("strlt", x.S, y.S))
			case token.GTR:
				return boolV(app("strlt", y.S, x.S))
			case token.LEQ:
				return boolV(not(app("strlt", y.S, x.S)))
			default:
				return boolV(not(app("strlt", x.S, y.S)))
			}
		}
	}
	if x.K == KReal || y.K == KReal {
		a, b := fc.vc.coerce(x, KReal), fc.vc.coerce(y, KReal)
		switch in.Op {
		case token.ADD:
			return Val{K: KReal, T: T, S: app("+", a, b)}
		case token.SUB:
			return Val{K: KReal, T: T, S: app("-", a, b)}
		case token.MUL:
			return Val{K: KReal, T: T, S: app("*", a, b)}
		case token.QUO:
			// IEEE: division by zero yields Inf/NaN, not a panic; idealised (A-FP)
			return Val{K: KReal, T: T, S: app("/", a, b)}
		case token.LSS:
			return boolV(app("<", a, b))
		case token.LEQ:
			return boolV(app("<=", a, b))
		case token.GTR:
			return boolV(app(">", a, b))
		case token.GEQ:
			return boolV(app(">=", a, b))
		}
		panic(unsupported("float op " + in.Op.String()))
	}
	switch in.Op {
	case token.LSS:
		return boolV(app("<", x.S, y.S))
	case token.LEQ:
		return boolV(app("<=", x.S, y.S))
	case token.GTR:
		return boolV(app(">", x.S, y.S))
	case token.GEQ:
		return boolV(app(">=", x.S, y.S))
	case token.ADD:
		return fc.arith(in, app("+", x.S, y.S), T, text)
	case token.SUB:
		return fc.arith(in, app("-", x.S, y.S), T, text)
	case token.MUL:
		return fc.arith(in, app("*", x.S, y.S), T, text)
	case token.QUO, token.REM:
		fc.oblig("div0", text, not(eq(y.S, "0")), in.Pos())
		lo, _, _ := intRange(T)
		var t Term
		if lo == "0" {
			if in.Op == token.QUO {
				t = app("div", x.S, y.S)
			} else {
				t = app("mod", x.S, y.S)
			}
			return intV(sc.define("ar", "Int", t), T)
		}
		if in.Op == token.QUO {
			return fc.arith(in, app("tdiv", x.S, y.S), T, text)
		}
		return intV(sc.define("ar", "Int", app("trem", x.S, y.S)), T)
	case token.SHR:
		if c, ok := constOf(in.Y); ok {
			if c.Cmp(big.NewInt(64)) >= 0 {
				lo, _, _ := intRange(T)
				if lo == "0" {
					return intV("0", T)
				}
				return intV(ite(app("<", x.S, "0"), "(- 1)", "0"), T)
			}
			return intV(sc.define("ar", "Int", shrTerm(x.S, uint(c.Uint64()))), T)
		}
	case token.SHL:
		if c, ok := constOf(in.Y); ok {
			if c.Cmp(big.NewInt(64)) >= 0 {
				return intV("0", T)
			}
			saved := fc.nowrap
			fc.nowrap = false // shifting bits out is defined behaviour, never an overflow finding
			v := fc.arith(in, app("*", x.S, pow2(uint(c.Uint64())).String()), T, text)
			fc.nowrap = saved
			return v
		}
		if c, ok := constOf(in.X); ok && c.Cmp(one) == 0 {
			// 1 << s
			fc.vc.sc.declareFun("pow2", []string{"Int"}, "Int")
			fc.eng.needPow2(fc.vc)
			lo, hi, _ := intRange(T)
			_ = lo
			t := app("pow2", y.S)
			saved := fc.nowrap
			fc.nowrap = false
			v := fc.arith(in, ite(app("<", y.S, "64"), t, "0"), T, text)
			fc.nowrap = saved
			_ = hi
			return v
		}
	case token.AND:
		if c, ok := constOf(in.Y); ok && c.Sign() >= 0 {
			return intV(sc.define("ar", "Int", andConst(x.S, c)), T)
		}
		if c, ok := constOf(in.X); ok && c.Sign() >= 0 {
			return intV(sc.define("ar", "Int", andConst(y.S, c)), T)
		}
		if is8(T) {
			return intV(app("and8", x.S, y.S), T)
		}
	case token.OR:
		if c, ok := constOf(in.Y); ok && c.Sign() >= 0 {
			return intV(sc.define("ar", "Int", app("-", app("+", x.S, c.String()), andConst(x.S, c))), T)
		}
		if c, ok := constOf(in.X); ok && c.Sign() >= 0 {
			return intV(sc.define("ar", "Int", app("-", app("+", y.S, c.String()), andConst(y.S, c))), T)
		}
		if is8(T) {
			return intV(app("or8", x.S, y.S), T)
		}
		// hi<<k | lo with lo < 2^k (the usual big-endian assembly of a wider integer): the
		// operands have no bit in common, so the result is their sum
		if lowZeroBits(in.X) >= valueBits(in.Y) || lowZeroBits(in.Y) >= valueBits(in.X) {
			return intV(sc.define("ar", "Int", app("+", x.S, y.S)), T)
		}
	case token.XOR:
		if c, ok := constOf(in.Y); ok && c.Sign() >= 0 {
			return intV(sc.define("ar", "Int", app("-", app("+", x.S, c.String()), app("*", "2", andConst(x.S, c)))), T)
		}
		if is8(T) {
			return intV(app("xor8", x.S, y.S), T)
		}
	case token.AND_NOT:
		if c, ok := constOf(in.Y); ok && c.Sign() >= 0 {
			return intV(sc.define("ar", "Int", app("-", x.S, andConst(x.S, c))), T)
		}
	}
	// variable/variable bit operation on wide integers: result havocked within the type's range
	fc.note("bit operation %s %s havocked within range of %s", in.Op, text, T)
	v := fc.freshVal("bitop", T)
	fc.assume(fc.typeFacts(v, fc.vc.st.NA))
	return v
}

// shrTerm: x >> k (floor division by 2^k). Shifts by whole bytes are written as
// nested divisions by 256 so that x>>8, x>>16, ... share subterms and the
// solver sees the byte decomposition x = 256*(x>>8) + x%256 directly (a single
// division by 2^56 hides it and makes byte-codec goals time out).
func shrTerm(x Term, k uint) Term {
	if k >= 16 && k%8 == 0 {
		t := x
		for i := uint(0); i < k/8; i++ {
			t = app("div", t, "256")
		}
		return t
	}
	return app("div", x, pow2(k).String())
}

func is8(T types.Type) bool {
	b, ok := T.Underlying().(*types.Basic)
	return ok && (b.Kind() == types.Uint8)
}

func (fc *FnCtx) note(format string, args ...any) {
	s := fmt.Sprintf(format, args...)
	for _, n := range fc.notes {
		if n == s {
			return
		}
	}
	fc.notes = append(fc.notes, s)
}

func (fc *FnCtx) valEq(x, y Val) Term {
	switch x.K {
	case KSlice:
		if y.Sl == nil {
			return eq(x.Sl.Base, "0")
		}
		return and(eq(x.Sl.Base, y.Sl.Base), eq(x.Sl.Off, y.Sl.Off), eq(x.Sl.Len, y.Sl.Len), eq(x.Sl.Cap, y.Sl.Cap))
	case KIface:
		if y.K != KIface {
			panic(unsupported("comparison of interface with non-interface"))
		}
		return and(eq(x.Tag, y.Tag), eq(x.S, y.S))
	case KStruct, KTuple:
		var fs []Term
		for i := range x.Fs {
			fs = append(fs, fc.valEq(x.Fs[i], y.Fs[i]))
		}
		return and(fs...)
	case KPtr:
		if x.S != "" && y.S != "" {
			return eq(x.S, y.S)
		}
		if x.Loc != nil && y.Loc != nil && x.Loc.Prefix == y.Loc.Prefix && len(x.Loc.Idx) == len(y.Loc.Idx) {
			var fs []Term
			for i := range x.Loc.Idx {
				fs = append(fs, eq(x.Loc.Idx[i], y.Loc.Idx[i]))
			}
			return and(fs...)
		}
		if x.Loc != nil && y.S == "0" || y.Loc != nil && x.S == "0" {
			return "false"
		}
		panic(unsupported("pointer comparison across regions"))
	case KFunc:
		return eq(fc.vc.funcID(x), fc.vc.funcID(y))
	case KReal:
		return eq(x.S, fc.vc.coerce(y, KReal))
	case KArr:
		return eq(x.S, y.S)
	}
	if y.K == KReal {
		return eq(toReal(x.S), y.S)
	}
	return eq(x.S, y.S)
}

func (fc *FnCtx) convert(in *ssa.Convert, st *State) Val {
	x := fc.val(in.X)
	T := in.Type()
	src := in.X.Type()
	sk, dk := kindOfType(src), kindOfType(T)
	sc := fc.vc.sc
	text := fc.instrText(in)
	switch {
	case sk == KInt && dk == KInt:
		if _, ok := T.Underlying().(*types.Basic); !ok {
			return Val{K: KInt, T: T, S: x.S}
		}
		if rangeIncludes(T, src) {
			return intV(x.S, T)
		}
		return fc.arith(in, x.S, T, text)
	case sk == KInt && dk == KReal:
		return Val{K: KReal, T: T, S: toReal(x.S)}
	case sk == KReal && dk == KReal:
		return Val{K: KReal, T: T, S: x.S}
	case sk == KReal && dk == KInt:
		t := sc.define("f2i", "Int", fmt.Sprintf("(ite (>= %s 0.0) (to_int %s) (- (to_int (- %s))))", x.S, x.S, x.S))
		return fc.arith(in, t, T, text)
	case sk == KSlice && dk == KStr:
		r := sc.fresh("str", "Str")
		et := src.Underlying().(*types.Slice).Elem()
		if is8(et) {
			reg := fc.vc.region(st, "elem<uint8>", 2, "Int")
			fc.assume(eq(app("slen", r), x.Sl.Len))
			fc.assume(fmt.Sprintf("(forall ((i Int)) (! (=> (and (<= 0 i) (< i %s)) (= (sat %s i) (select (select %s %s) (+ %s i)))) :pattern ((sat %s i))))", x.Sl.Len, r, reg, x.Sl.Base, x.Sl.Off, r))
		}
		return Val{K: KStr, T: T, S: r}
	case sk == KStr && dk == KSlice:
		b := fc.vc.alloc(st)
		et := T.Underlying().(*types.Slice).Elem()
		n := app("slen", x.S)
		if is8(et) {
			reg := fc.vc.region(st, "elem<uint8>", 2, "Int")
			a := sc.fresh("bytes", "(Array Int Int)")
			fc.assume(fmt.Sprintf("(forall ((i Int)) (! (=> (and (<= 0 i) (< i %s)) (= (select %s i) (sat %s i))) :pattern ((select %s i))))", n, a, x.S, a))
			fc.vc.setRegion(st, "elem<uint8>", 2, "Int", app("store", reg, b, a))
		}
		return Val{K: KSlice, T: T, Sl: &SliceV{b, "0", n, n}}
	case sk == KInt && dk == KStr:
		r := sc.fresh("runestr", "Str")
		return Val{K: KStr, T: T, S: r}
	case sk == KStr && dk == KStr:
		return Val{K: KStr, T: T, S: x.S}
	case sk == KPtr || dk == KPtr:
		panic(unsupported("unsafe pointer conversion"))
	}
	panic(unsupported(fmt.Sprintf("convert %s -> %s", src, T)))
}

func rangeIncludes(dst, src types.Type) bool {
	db, ok1 := dst.Underlying().(*types.Basic)
	sb, ok2 := src.Underlying().(*types.Basic)
	if !ok1 || !ok2 {
		return false
	}
	dbits, dsig := intBits(db)
	sbits, ssig := intBits(sb)
	if dsig == ssig {
		return dbits >= sbits
	}
	if dsig && !ssig {
		return dbits > sbits
	}
	return false
}

func (fc *FnCtx) typeTag(T types.Type) Term {
	s := types.TypeString(T, nil)
	id, ok := fc.eng.typeTags[s]
	if !ok {
		id = len(fc.eng.typeTags) + 1
		fc.eng.typeTags[s] = id
		fc.eng.tagTypes[id] = T
	}
	return itoa(int64(id))
}

func (fc *FnCtx) makeInterface(in *ssa.MakeInterface, st *State) Val {
	x := fc.val(in.X)
	tag := fc.typeTag(in.X.Type())
	var pl Term
	switch x.K {
	case KInt:
		pl = x.S
	case KPtr:
		if x.S == "" {
			// a pointer to a field / element / cell passed as `any` (e.g. to
			// encoding/binary.Read): the payload is an opaque handle; the pointer
			// itself is remembered so that a library contract can name *it
			pl = fc.vc.sc.fresh("ptrbox", "Int")
			fc.assume(app(">", pl, "0"))
			fc.eng.boxes[pl] = x
		} else {
			pl = x.S
			fc.eng.boxes[pl] = x
		}
	case KBool:
		pl = ite(x.S, "1", "0")
	case KFunc:
		pl = fc.vc.funcID(x)
	default:
		// box: fresh immutable cell holding the value
		r := fc.vc.alloc(st)
		fc.eng.boxes[r] = x
		fc.boxStore(st, r, in.X.Type(), x)
		pl = r
	}
	return Val{K: KIface, T: in.Type(), S: pl, Tag: tag}
}

// boxStore records the boxed value's components in box regions so that a later
// type assertion recovers them.
func (fc *FnCtx) boxStore(st *State, r Term, T types.Type, x Val) {
	p := Val{K: KPtr, T: types.NewPointer(T), S: r}
	if !isObjectType(T) {
		p.Loc = &Loc{Prefix: "box<" + leafTypeName(T) + ">", Idx: []Term{r}}
	}
	defer func() {
		if e := recover(); e != nil {
			if _, ok := e.(unsupported); ok {
				return // contents not tracked
			}
			panic(e)
		}
	}()
	fc.vc.store(st, p, T, x)
}

func (fc *FnCtx) unbox(st *State, pl Term, T types.Type) Val {
	switch kindOfType(T) {
	case KInt:
		if _, ok := T.Underlying().(*types.Basic); ok {
			return intV(pl, T)
		}
		return Val{K: KInt, T: T, S: pl}
	case KPtr:
		return fc.vc.ptrFromRef(pl, T)
	case KBool:
		return boolV(eq(pl, "1"))
	case KFunc:
		return Val{K: KFunc, T: T, S: pl}
	}
	p := Val{K: KPtr, T: types.NewPointer(T), S: pl}
	if !isObjectType(T) {
		p.Loc = &Loc{Prefix: "box<" + leafTypeName(T) + ">", Idx: []Term{pl}}
	}
	return fc.vc.load(st, p, T)
}

func (fc *FnCtx) typeAssert(in *ssa.TypeAssert, st *State) {
	x := fc.val(in.X)
	var okT Term
	var v Val
	if types.IsInterface(in.AssertedType) {
		// interface-to-interface: succeeds iff dynamic type implements it
		okc := fc.vc.sc.fresh("implements", "Bool")
		fc.assume(implies(eq(x.Tag, "0"), not(okc)))
		// decide statically for known tags
		for s, id := range fc.eng.typeTags {
			_ = s
			T := fc.eng.tagTypes[id]
			impl := types.Implements(T, in.AssertedType.Underlying().(*types.Interface))
			if impl {
				fc.assume(implies(eq(x.Tag, itoa(int64(id))), okc))
			} else {
				fc.assume(implies(eq(x.Tag, itoa(int64(id))), not(okc)))
			}
		}
		okT = okc
		v = Val{K: KIface, T: in.AssertedType, S: x.S, Tag: x.Tag}
	} else {
		tag := fc.typeTag(in.AssertedType)
		okT = eq(x.Tag, tag)
		v = fc.unbox(st, x.S, in.AssertedType)
	}
	if in.CommaOk {
		fc.vals[in] = Val{K: KTuple, T: in.Type(), Fs: []Val{v, boolV(okT)}}
		return
	}
	fc.oblig("typeassert", fc.instrText(in), okT, in.Pos())
	fc.vals[in] = v
}


// valueBits bounds the number of significant bits of a non-negative value by its syntax:
// a conversion from an unsigned 8/16/32-bit value, such a value shifted left by a constant,
// or an OR of such values. 64 means unknown.
func valueBits(v ssa.Value) int {
	switch x := v.(type) {
	case *ssa.Convert:
		if b, ok := x.X.Type().Underlying().(*types.Basic); ok {
			switch b.Kind() {
			case types.Uint8:
				return 8
			case types.Uint16:
				return 16
			case types.Uint32:
				return 32
			}
		}
		return valueBits(x.X)
	case *ssa.ChangeType:
		return valueBits(x.X)
	case *ssa.BinOp:
		switch x.Op {
		case token.SHL:
			if c, ok := constOf(x.Y); ok && c.IsInt64() && c.Int64() >= 0 && c.Int64() < 64 {
				if n := valueBits(x.X) + int(c.Int64()); n < 64 {
					return n
				}
			}
		case token.OR:
			a, b := valueBits(x.X), valueBits(x.Y)
			if a > b {
				return a
			}
			return b
		}
	}
	if b, ok := v.Type().Underlying().(*types.Basic); ok {
		switch b.Kind() {
		case types.Uint8:
			return 8
		case types.Uint16:
			return 16
		case types.Uint32:
			return 32
		}
	}
	return 64
}

// lowZeroBits: how many low bits of v are zero by its syntax (a left shift by a constant).
func lowZeroBits(v ssa.Value) int {
	switch x := v.(type) {
	case *ssa.BinOp:
		switch x.Op {
		case token.SHL:
			if c, ok := constOf(x.Y); ok && c.IsInt64() && c.Int64() >= 0 && c.Int64() < 64 {
				return int(c.Int64()) + lowZeroBits(x.X)
			}
		case token.OR:
			a, b := lowZeroBits(x.X), lowZeroBits(x.Y)
			if a < b {
				return a
			}
			return b
		}
	case *ssa.Convert:
		if valueBits(x.X) < 64 {
			return lowZeroBits(x.X) // widening an unsigned value keeps its low bits
		}
	}
	return 0
}
