package main

import (
	"fmt"
	"go/token"
	"go/types"
	"strings"
)

// Recursive specification functions (`spec rec func f(a, b) = body`) become SMT
// define-fun-rec. Their body may read the heap (slice elements, fields); the
// heap regions it reads become extra leading parameters, so f is a function of
// an explicit heap and can be applied to any state (cur, old, loop head).
//
// Lemmas with parameters (`lemma L props (s []T, n int) induction n: P`) are
// proved for an arbitrary heap and arbitrary parameter values; with
// `induction n` the proof is base case P[n:=0] plus step P(n) => P(n+1) for
// n >= 0. A proved lemma is made available to function VCs as a quantified
// fact over the same heap parameters.

type recDef struct {
	fname   Term
	regions []string // region names, in parameter order
	kinds   []Kind   // kinds of the declared parameters (flattened when applied)
	ret     Kind
	retT    types.Type
	formals []string // region formals then flattened parameter formals
	body    Term     // over the formals
}

// flatten: the SMT arguments a spec value contributes to a rec-function application.
func flattenVal(v Val) []Term {
	switch v.K {
	case KSlice:
		return []Term{v.Sl.Base, v.Sl.Off, v.Sl.Len, v.Sl.Cap}
	case KIface:
		return []Term{v.S, v.Tag}
	}
	return []Term{v.S}
}

func flatSorts(v Val) []string {
	switch v.K {
	case KSlice:
		return []string{"Int", "Int", "Int", "Int"}
	case KIface:
		return []string{"Int", "Int"}
	case KBool:
		return []string{"Bool"}
	case KStr:
		return []string{"Str"}
	case KReal:
		return []string{"Real"}
	case KArr:
		return []string{"(Array Int Int)"}
	}
	return []string{"Int"}
}

// lemmaParamType resolves a lemma parameter's declared type; the pseudo-type
// `intarray` is a first-class integer array (what row(s) and regionof(..) yield).
func (fc *FnCtx) lemmaParamType(lm *Lemma, decl string) (types.Type, bool) {
	if decl == "intarray" {
		return nil, true
	}
	if pi := fc.eng.pkgs[lm.PkgPath]; pi != nil {
		if tv, err := types.Eval(fc.eng.fset, pi.Types, token.NoPos, decl); err == nil {
			return tv.Type, false
		}
	}
	tv, err := types.Eval(fc.eng.fset, nil, token.NoPos, decl)
	if err != nil {
		panic(specErr("lemma " + lm.Name + ": cannot resolve type " + decl))
	}
	return tv.Type, false
}

// formalVal builds a value of the same shape as v out of formal parameter names.
func formalVal(prefix string, v Val) (Val, []string) {
	f := v
	switch v.K {
	case KSlice:
		n := []string{sym(prefix + ".b"), sym(prefix + ".o"), sym(prefix + ".l"), sym(prefix + ".c")}
		f.Sl = &SliceV{n[0], n[1], n[2], n[3]}
		return f, n
	case KIface:
		n := []string{sym(prefix + ".pl"), sym(prefix + ".tag")}
		f.S, f.Tag = n[0], n[1]
		return f, n
	case KPtr:
		f.S = sym(prefix)
		if f.Loc != nil {
			panic(specErr("interior pointers cannot be passed to a recursive spec function"))
		}
		return f, []string{f.S}
	}
	f.S = sym(prefix)
	return f, []string{f.S}
}

func (fc *FnCtx) evalRecCall(sf *SpecFunc, args []Val, env *Env) Val {
	vc := fc.vc
	if vc.recDefs == nil {
		vc.recDefs = map[string]*recDef{}
	}
	rd := vc.recDefs[sf.Name]
	if rd == nil {
		rd = fc.defineRec(sf, args)
	}
	if rd.fname == "" {
		// recursive occurrence while the definition is being built: placeholder, patched afterwards
		var as []Term
		for _, a := range args {
			as = append(as, flattenVal(a)...)
		}
		return Val{K: rd.ret, T: rd.retT, S: "(" + recPlaceholder(sf.Name) + " " + strings.Join(as, " ") + ")"}
	}
	var as []Term
	for _, r := range rd.regions {
		ri := vc.eng.regions[r]
		as = append(as, vc.region(env.state(), r, ri.nidx, ri.leaf))
	}
	for _, a := range args {
		as = append(as, flattenVal(a)...)
	}
	t := app(rd.fname, as...)
	// one unfolding of the definition for this ground application
	ground := len(as) == len(rd.formals)
	for _, a := range as {
		if strings.Contains(a, "q_") || strings.Contains(a, "qs_") || strings.Contains(a, "lq:") || strings.Contains(a, "rp:") || strings.Contains(a, "rf:") {
			ground = false
		}
	}
	if ground && !vc.subs["unfold:"+t] {
		vc.subs["unfold:"+t] = true
		inst := rd.body
		for i, f := range rd.formals {
			inst = strings.ReplaceAll(inst, f, as[i])
		}
		vc.sc.assert(eq(t, inst))
	}
	return Val{K: rd.ret, T: rd.retT, S: t}
}

func recPlaceholder(name string) string { return "REC!" + name }

func (fc *FnCtx) defineRec(sf *SpecFunc, args []Val) *recDef {
	vc := fc.vc
	rd := &recDef{ret: KInt}
	vc.recDefs[sf.Name] = rd
	tr := &regionTracker{seen: map[string]bool{}}
	st := &State{Heap: map[string]Term{}, Gh: map[string]Term{}, NA: "0", Track: tr}
	env := &Env{fc: fc, vars: map[string]Val{}, cur: st, old: st, depth: 1}
	var formals, sorts []string
	for i, p := range sf.Params {
		if i >= len(args) {
			panic(specErr("spec rec func " + sf.Name + ": wrong number of arguments"))
		}
		fv, names := formalVal("rp:"+p, args[i])
		env.vars[p] = fv
		formals = append(formals, names...)
		sorts = append(sorts, flatSorts(args[i])...)
		rd.kinds = append(rd.kinds, args[i].K)
	}
	savePkg := fc.pkg
	if sf.PkgPath != "" && fc.eng.pkgs[sf.PkgPath] != nil {
		fc.pkg = fc.eng.pkgs[sf.PkgPath]
	}
	// first pass fixes the result kind (recursive occurrences are assumed Int unless the body says otherwise)
	body := fc.evalExpr(sf.Body, env)
	fc.pkg = savePkg
	rd.ret, rd.retT = body.K, body.T
	if body.K != KInt && body.K != KBool {
		panic(specErr("spec rec func " + sf.Name + ": result must be an integer or a boolean"))
	}
	rd.regions = tr.names
	fname := sym("rec:" + sf.Name)
	var params []string
	var regionFormals []Term
	for _, r := range rd.regions {
		ri := vc.eng.regions[r]
		params = append(params, fmt.Sprintf("(%s %s)", sym("rf:"+r), arraySort(ri.nidx, ri.leaf)))
		regionFormals = append(regionFormals, sym("rf:"+r))
	}
	for i, f := range formals {
		params = append(params, fmt.Sprintf("(%s %s)", f, sorts[i]))
	}
	head := "(" + fname
	if len(regionFormals) > 0 {
		head += " " + strings.Join(regionFormals, " ")
	}
	text := strings.ReplaceAll(body.S, "("+recPlaceholder(sf.Name)+" ", head+" ")
	// An uninterpreted function with its defining equation as a triggered axiom
	// (one unfolding per application that occurs): define-fun-rec makes all three
	// solvers unfold without bound on the induction steps.
	var psorts []string
	var formalNames []string
	for _, r := range rd.regions {
		ri := vc.eng.regions[r]
		psorts = append(psorts, arraySort(ri.nidx, ri.leaf))
		formalNames = append(formalNames, sym("rf:"+r))
	}
	psorts = append(psorts, sorts...)
	formalNames = append(formalNames, formals...)
	vc.sc.raw(fmt.Sprintf("(declare-fun %s (%s) %s)", fname, strings.Join(psorts, " "), leafSort(rd.ret)))
	// The defining equation is not asserted as a quantified axiom (it is a matching
	// loop: every instance creates the next application). Instead every ground
	// application that the VC mentions is unfolded exactly once (evalRecCall).
	rd.formals = formalNames
	rd.body = text
	_ = params
	rd.fname = fname
	return rd
}

// lemmaParams creates universally quantified values for a lemma's parameters.
func (fc *FnCtx) lemmaParams(lm *Lemma, st *State) map[string]Val {
	out := map[string]Val{}
	for _, p := range lm.Params {
		T, isArr := fc.lemmaParamType(lm, p[1])
		if isArr {
			out[p[0]] = Val{K: KArr, S: fc.vc.sc.fresh("lp_"+p[0], "(Array Int Int)")}
			continue
		}
		v := fc.freshVal("lp_"+p[0], T)
		fc.vc.sc.assert(fc.typeFacts(v, st.NA))
		out[p[0]] = v
	}
	return out
}

// useLemma assumes one instance of a proved lemma (a `use NAME(args)` proof hint).
func (fc *FnCtx) useLemma(u LemmaUse, env *Env) {
	var lm *Lemma
	for _, l := range fc.eng.cs.Lemmas {
		if l.Name == u.Name {
			lm = l // a lemma (proved here) or an axiom (trusted, listed in the evidence)
		}
	}
	if lm == nil {
		panic(specErr("use: no lemma named " + u.Name))
	}
	if len(u.Args) != len(lm.Params) {
		panic(specErr(fmt.Sprintf("use %s: %d arguments for %d parameters", u.Name, len(u.Args), len(lm.Params))))
	}
	lenv := &Env{fc: fc, vars: map[string]Val{}, cur: env.cur, old: env.old, depth: env.depth + 1}
	for i, p := range lm.Params {
		lenv.vars[p[0]] = fc.evalExpr(u.Args[i].Expr, env)
	}
	save := fc.pkg
	if lm.PkgPath != "" && fc.eng.pkgs[lm.PkgPath] != nil {
		fc.pkg = fc.eng.pkgs[lm.PkgPath]
	}
	body := fc.evalBool(lm.Clause.Expr, lenv)
	fc.pkg = save
	if lm.Induct != "" {
		body = implies(app(">=", lenv.vars[lm.Induct].S, "0"), body)
	}
	fc.assume(body)
	if lm.Axiom {
		fc.eng.markAxiom(lm.Name, lm.Clause.Text)
	} else {
		fc.eng.markAxiom("lemma "+lm.Name, "proved by its own obligations under "+strings.Join(lm.Props, ",")+"; instance used as a hint")
	}
}

// lemmaAsFact: the lemma as a closed formula, universally quantified over its
// parameters and over the heap regions it reads, for use as a hypothesis in
// function VCs (the lemma itself is proved by its own obligations).
func (fc *FnCtx) lemmaAsFact(lm *Lemma) Term {
	tr := &regionTracker{seen: map[string]bool{}}
	st := &State{Heap: map[string]Term{}, Gh: map[string]Term{}, NA: "0", Track: tr}
	env := &Env{fc: fc, vars: map[string]Val{}, cur: st, old: st, depth: 1}
	var binders []string
	var wf []Term
	for _, p := range lm.Params {
		T, isArr := fc.lemmaParamType(lm, p[1])
		if isArr {
			n := sym("lq:" + lm.Name + ":" + p[0])
			binders = append(binders, fmt.Sprintf("(%s (Array Int Int))", n))
			env.vars[p[0]] = Val{K: KArr, S: n}
			continue
		}
		proto := fc.vc.zero(T)
		proto.T = T
		if proto.K == KPtr && proto.Loc != nil {
			panic(specErr("lemma " + lm.Name + ": pointer-to-scalar parameters are not supported"))
		}
		fv, names := formalVal("lq:"+lm.Name+":"+p[0], proto)
		sorts := flatSorts(proto)
		for i, n := range names {
			binders = append(binders, fmt.Sprintf("(%s %s)", n, sorts[i]))
		}
		env.vars[p[0]] = fv
		wf = append(wf, fc.vc.wellFormed(fv))
	}
	body := fc.evalBool(lm.Clause.Expr, env)
	if lm.Induct != "" {
		// induction proves the statement for the natural numbers only
		wf = append(wf, app(">=", env.vars[lm.Induct].S, "0"))
	}
	for _, r := range tr.names {
		ri := fc.eng.regions[r]
		binders = append(binders, fmt.Sprintf("(%s %s)", sym("rf:"+r), arraySort(ri.nidx, ri.leaf)))
	}
	if len(binders) == 0 {
		return body
	}
	return fmt.Sprintf("(forall (%s) %s)", strings.Join(binders, " "), implies(and(wf...), body))
}
