package main

import (
	"fmt"
	"go/ast"
	"go/types"
	"sort"
	"strings"

	"golang.org/x/tools/go/ssa"
)

// globalInvObligations: for every `globalinv` tagged with prop
//  1. the package initialiser establishes it (the synthetic init function is
//     verified with the clause as its postcondition), and
//  2. no function other than the initialiser stores to a package-level variable
//     the clause mentions (structural scan), so it holds forever after.
func (eng *Engine) globalInvObligations(prop string) ([]*Obligation, []fnReport) {
	var out []*Obligation
	var reps []fnReport
	byPkg := map[string][]*GlobalInv{}
	var paths []string
	for _, gi := range eng.cs.GlobalInvs {
		if hasProp(gi.Props, prop) {
			if len(byPkg[gi.PkgPath]) == 0 {
				paths = append(paths, gi.PkgPath)
			}
			byPkg[gi.PkgPath] = append(byPkg[gi.PkgPath], gi)
		}
	}
	sort.Strings(paths)
	for _, path := range paths {
		pi := eng.pkgs[path]
		if pi == nil || pi.SSA == nil {
			out = append(out, &Obligation{Name: path + "/globalinv/package-loaded#0", Kind: "bind", Result: "sat", Solver: "binder", Model: "package not loaded"})
			continue
		}
		initFn := pi.SSA.Func("init")
		if initFn != nil && len(initFn.Blocks) == 0 {
			pi.SSA.Build()
		}
		name := pi.Types.Name() + ".init"
		if initFn == nil || len(initFn.Blocks) == 0 {
			out = append(out, &Obligation{Name: name + "/bind/function-exists#0", Kind: "bind", Fn: name, Result: "sat", Solver: "binder", Model: "package initialiser not found"})
			continue
		}
		con := &Contract{Key: "init", PkgPath: path, Kind: "func", Loops: map[int]*LoopSpec{}, Props: []string{prop}}
		for _, gi := range byPkg[path] {
			con.Ensures = append(con.Ensures, gi.Clause)
		}
		any, _ := parseSpecExpr("any")
		con.Modifies = []Clause{{Text: "any", Expr: any}}
		rep := fnReport{Name: name, InSubset: true}
		for _, b := range initFn.Blocks {
			rep.Instrs += len(b.Instrs)
		}
		fc, err := eng.safeVerify(initFn, con)
		if err != nil {
			rep.InSubset = false
			rep.Reason = err.Error()
			out = append(out, &Obligation{Name: name + "/subset/function-in-verifiable-subset#0", Kind: "subset", Fn: name, Result: "unknown", Solver: "generator", Model: err.Error()})
		} else {
			rep.Obligations = len(fc.obls)
			rep.Notes = fc.notes
			out = append(out, fc.obls...)
		}
		reps = append(reps, rep)
		// structural: the variables the clauses mention are stored to only by the initialiser
		vars := map[string]bool{}
		for _, gi := range byPkg[path] {
			ast.Inspect(gi.Clause.Expr, func(n ast.Node) bool {
				if id, ok := n.(*ast.Ident); ok {
					if v, ok := pi.Types.Scope().Lookup(id.Name).(*types.Var); ok && v != nil {
						vars[id.Name] = true
					}
				}
				return true
			})
		}
		var names []string
		for v := range vars {
			names = append(names, v)
		}
		sort.Strings(names)
		var bad []string
		for _, f := range eng.pkgFunctions(pi) {
			if f == initFn {
				continue
			}
			for _, b := range f.Blocks {
				for _, in := range b.Instrs {
					st, ok := in.(*ssa.Store)
					if !ok {
						continue
					}
					if g := rootGlobal(st.Addr); g != nil && vars[g.Name()] {
						p := eng.fset.Position(in.Pos())
						bad = append(bad, fmt.Sprintf("store to package variable %s in %s (%s:%d)", g.Name(), localName(f), p.Filename, p.Line))
					}
				}
			}
		}
		o := &Obligation{Name: fmt.Sprintf("%s.structural/package variables %s stored only by the initialiser#0", pi.Types.Name(), strings.Join(names, ",")), Kind: "structural", Fn: pi.Types.Name(), Solver: "ssa-scan", Result: "unsat"}
		if len(bad) > 0 {
			o.Result = "sat"
			o.Model = strings.Join(bad, "\n")
		}
		out = append(out, o)
	}
	return out, reps
}

// rootGlobal: the package-level variable an address is derived from, if any.
func rootGlobal(v ssa.Value) *ssa.Global {
	for i := 0; i < 8; i++ {
		switch a := v.(type) {
		case *ssa.Global:
			return a
		case *ssa.FieldAddr:
			v = a.X
		case *ssa.IndexAddr:
			v = a.X
		default:
			return nil
		}
	}
	return nil
}
