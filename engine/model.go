package main

import (
	"fmt"
	"go/types"
	"strings"

	"golang.org/x/tools/go/ssa"
)

// Kind classifies symbolic values.
type Kind int

const (
	KInt Kind = iota // integers, pointers-as-refs stored in memory, maps, chans, opaque funcs
	KBool
	KStr
	KReal // float64 idealised as Real (A-FP)
	KSlice
	KStruct // struct value in a register
	KTuple
	KIface
	KPtr  // pointer: to object (S=ref) or to a cell location (Loc)
	KArr  // array value in a register: S is an (Array Int leaf) term
	KFunc // function value: static function + bindings, or opaque S
	KUnit
)

type SliceV struct{ Base, Off, Len, Cap Term }

// Loc is a non-object memory location (scalar, slice, interface, ... cell).
type Loc struct {
	Prefix string // region prefix; leaf regions are Prefix+suffix
	Idx    []Term
}

type Val struct {
	K    Kind
	T    types.Type
	S    Term
	Sl   *SliceV
	Fs   []Val
	Loc  *Loc
	Tag  Term
	Fn   *ssa.Function
	Bind []Val
}

func intV(t Term, T types.Type) Val { return Val{K: KInt, S: t, T: T} }
func boolV(t Term) Val              { return Val{K: KBool, S: t, T: types.Typ[types.Bool]} }

// typeName gives a stable short name for region prefixes.
func typeName(t types.Type) string {
	t = types.Unalias(t)
	switch t := t.(type) {
	case *types.Named:
		o := t.Obj()
		n := o.Name()
		if ta := t.TypeArgs(); ta != nil && ta.Len() > 0 {
			var as []string
			for i := 0; i < ta.Len(); i++ {
				as = append(as, typeName(ta.At(i)))
			}
			n += "[" + strings.Join(as, ",") + "]"
		}
		if o.Pkg() != nil {
			return o.Pkg().Name() + "." + n
		}
		return n
	case *types.Pointer:
		return "*" + typeName(t.Elem())
	case *types.Slice:
		return "[]" + typeName(t.Elem())
	case *types.Array:
		return fmt.Sprintf("[%d]%s", t.Len(), typeName(t.Elem()))
	case *types.Basic:
		if t.Kind() != types.Invalid && t.Kind() < types.UntypedBool {
			return types.Typ[t.Kind()].Name() // byte -> uint8, rune -> int32: one name per type
		}
		return t.Name()
	}
	return types.TypeString(t, func(p *types.Package) string { return p.Name() })
}

// leafName: scalar region element-type name (underlying for basics so byte==uint8).
func leafTypeName(t types.Type) string {
	u := t.Underlying()
	switch u := u.(type) {
	case *types.Basic:
		// byte and rune are aliases with their own *types.Basic objects: use the canonical name
		return types.Typ[u.Kind()].Name()
	case *types.Pointer:
		return "*" + typeName(u.Elem())
	}
	return typeName(t)
}

func kindOfType(t types.Type) Kind {
	switch u := t.Underlying().(type) {
	case *types.Basic:
		switch {
		case u.Info()&types.IsBoolean != 0:
			return KBool
		case u.Info()&types.IsString != 0:
			return KStr
		case u.Info()&types.IsFloat != 0:
			return KReal
		case u.Kind() == types.UntypedNil:
			return KInt
		}
		return KInt
	case *types.Slice:
		return KSlice
	case *types.Struct:
		return KStruct
	case *types.Tuple:
		return KTuple
	case *types.Interface:
		return KIface
	case *types.Pointer:
		return KPtr
	case *types.Array:
		return KArr
	case *types.Signature:
		return KFunc
	case *types.Map, *types.Chan:
		return KInt
	}
	return KInt
}

func leafSort(k Kind) string {
	switch k {
	case KBool:
		return "Bool"
	case KStr:
		return "Str"
	case KReal:
		return "Real"
	}
	return "Int"
}

// isObjectType: pointees that are objects addressed by a Ref (structs, arrays).
func isObjectType(t types.Type) bool {
	switch t.Underlying().(type) {
	case *types.Struct, *types.Array:
		return true
	}
	return false
}

// intRange returns lo, hi (inclusive) for sized integer types; ok=false otherwise.
func intRange(t types.Type) (lo, hi Term, ok bool) {
	b, isb := t.Underlying().(*types.Basic)
	if !isb || b.Info()&types.IsInteger == 0 {
		return "", "", false
	}
	bits, signed := intBits(b)
	if signed {
		h := pow2(bits - 1)
		return "(- " + h.String() + ")", new(bigInt).Sub(h, one).String(), true
	}
	return "0", new(bigInt).Sub(pow2(bits), one).String(), true
}

func intBits(b *types.Basic) (uint, bool) {
	switch b.Kind() {
	case types.Int8:
		return 8, true
	case types.Int16:
		return 16, true
	case types.Int32:
		return 32, true
	case types.Int64, types.Int, types.UntypedInt, types.UntypedRune:
		return 64, true
	case types.Uint8:
		return 8, false
	case types.Uint16:
		return 16, false
	case types.Uint32:
		return 32, false
	case types.Uint64, types.Uint, types.Uintptr:
		return 64, false
	}
	return 64, true
}

// State is the symbolic heap at a program point.
type State struct {
	Heap map[string]Term // region -> current term
	NA   Term            // allocation counter
	Gh   map[string]Term // ghost scalars
	// Track, when set, makes region() return formal parameters named after the
	// regions instead of heap versions and records which regions were read: this
	// is how the body of a recursive spec function is abstracted over the heap.
	Track *regionTracker
	// Epoch > 0: a whole-heap havoc (a callee that may write anything) happened on the way
	// here; a region first mentioned afterwards is unknown, not its entry version.
	Epoch int
}

type regionTracker struct {
	names []string // in order of first use
	seen  map[string]bool
}

func (t *regionTracker) formal(name string) Term {
	if !t.seen[name] {
		t.seen[name] = true
		t.names = append(t.names, name)
	}
	return sym("rf:" + name)
}

func (st *State) clone() *State {
	n := &State{Heap: make(map[string]Term, len(st.Heap)), NA: st.NA, Gh: make(map[string]Term, len(st.Gh)), Epoch: st.Epoch, Track: st.Track}
	for k, v := range st.Heap {
		n.Heap[k] = v
	}
	for k, v := range st.Gh {
		n.Gh[k] = v
	}
	return n
}
