package main

import (
	"bytes"
	"context"
	"fmt"
	"os"
	"os/exec"
	"path/filepath"
	"runtime"
	"strings"
	"sync"
	"time"
)

type solverSpec struct {
	name string
	cmd  func(file string, timeout int) []string
}

var solvers = []solverSpec{
	{"z3-new", func(f string, t int) []string { return []string{"z3-new", fmt.Sprintf("-T:%d", t), f} }},
	{"z3", func(f string, t int) []string { return []string{"z3", fmt.Sprintf("-T:%d", t), f} }},
	// the same solver without its automatic configuration (plain E-matching set-up): decides
	// several frame-style quantified goals in under a second that the default strategy loses itself in
	{"z3-new-plain", func(f string, t int) []string {
		return []string{"z3-new", fmt.Sprintf("-T:%d", t), "smt.auto_config=false", f}
	}},
	{"cvc5", func(f string, t int) []string {
		return []string{"cvc5", "--produce-models", fmt.Sprintf("--tlimit=%d", t*1000), f}
	}},
	// two more seeds: quantified array goals are sensitive to the instantiation order, and an
	// obligation that one seed loses itself in is usually decided by another within a second
	{"z3-new-seed7", func(f string, t int) []string {
		return []string{"z3-new", fmt.Sprintf("-T:%d", t), "smt.random_seed=7", "sat.random_seed=7", f}
	}},
	{"z3-new-plain-seed3", func(f string, t int) []string {
		return []string{"z3-new", fmt.Sprintf("-T:%d", t), "smt.auto_config=false", "smt.random_seed=3", f}
	}},
}

func (o *Obligation) query(withModel bool) string {
	s, _ := o.queryText(withModel, false)
	return s
}

// queryText builds the query; with slice it leaves out hypotheses about uninterpreted
// functions foreign to the goal (see sliceByGoalUFs) and reports whether that removed anything.
func (o *Obligation) queryText(withModel, slice bool) (string, bool) {
	var b strings.Builder
	sliced := false
	lines := o.VC.sc.lines[:o.Pos]
	np := o.VC.preludeLen
	if np > len(lines) {
		np = len(lines)
	}
	var bodyLines []string
	for i := np; i < len(lines); i++ {
		if _, isAx := o.VC.axLines[i]; !isAx && !strings.HasPrefix(lines[i], "(declare-") {
			bodyLines = append(bodyLines, lines[i])
		}
	}
	body := strings.Join(bodyLines, "\n") + "\n" + o.Goal
	var kept []string
	for i, l := range lines {
		if ax, isAx := o.VC.axLines[i]; isAx {
			used := false
			for _, s := range ax.syms {
				if strings.Contains(body, "("+s+" ") || (strings.Contains(s, "ghost:") && strings.Contains(body, s)) {
					used = true
					break
				}
			}
			if !used {
				continue
			}
			o.VC.eng.markAxiom(ax.name, ax.text)
		}
		if o.Expect == "sat" && strings.Contains(l, "(forall ") {
			continue // satisfiability of the quantifier-free part is what the guard checks
		}
		if i < np && strings.Contains(l, "(forall ") {
			// a prelude axiom is included only when its trigger symbol occurs in the query
			if j := strings.Index(l, ":pattern (("); j >= 0 {
				s := l[j+len(":pattern (("):]
				if k := strings.IndexAny(s, " )"); k > 0 {
					if !strings.Contains(body, "("+s[:k]+" ") {
						continue
					}
				}
			}
		}
		kept = append(kept, l)
	}
	if o.Expect != "sat" {
		kept = dropOffPathFacts(kept, o.Goal)
		if slice {
			ufs := []string{"xor8", "and8", "or8"}
			for n := range o.VC.eng.ufs {
				ufs = append(ufs, sym(n))
			}
			for _, rd := range o.VC.recDefs {
				if rd.fname != "" {
					ufs = append(ufs, rd.fname)
				}
			}
			kept, sliced = sliceByGoalUFs(kept, o.Goal, ufs)
		}
	}
	for _, l := range dropDeadDecls(kept, o.Goal) {
		b.WriteString(l)
		b.WriteByte('\n')
	}
	b.WriteString("(assert (not " + o.Goal + "))\n(check-sat)\n")
	if withModel {
		if len(o.Values) > 0 {
			b.WriteString("(get-value (" + strings.Join(o.Values, " ") + "))\n")
		} else {
			b.WriteString("(get-model)\n")
		}
	}
	return b.String(), sliced
}

// solverSlots bounds the number of solver processes running at once (one per core):
// obligations are raced on several solver configurations, and oversubscribing the
// machine turns 3-second proofs into spurious timeouts. A solver's own time limit starts
// when it gets its slot.
var solverSlots = make(chan struct{}, maxInt(2, runtime.NumCPU()))

func maxInt(a, b int) int {
	if a > b {
		return a
	}
	return b
}

func runSolver(parent context.Context, s solverSpec, file string, timeout int) (string, string) {
	select {
	case solverSlots <- struct{}{}:
	case <-parent.Done():
		return "timeout", ""
	}
	defer func() { <-solverSlots }()
	ctx, cancelT := context.WithTimeout(parent, time.Duration(timeout+3)*time.Second)
	defer cancelT()
	args := s.cmd(file, timeout)
	cmd := exec.CommandContext(ctx, args[0], args[1:]...)
	var out bytes.Buffer
	cmd.Stdout = &out
	cmd.Stderr = &out
	cmd.Run()
	text := out.String()
	first := strings.TrimSpace(strings.SplitN(text, "\n", 2)[0])
	switch first {
	case "sat", "unsat":
		return first, text
	case "unknown":
		return "unknown", text
	case "timeout":
		return "timeout", text
	}
	if ctx.Err() != nil {
		return "timeout", text
	}
	if strings.Contains(text, "timeout") {
		return "timeout", text
	}
	return "error", text
}

// discharge decides one obligation: z3-new first, then the other two raced.
func discharge(o *Obligation, workdir string, idx int, timeout int, all bool) {
	file := filepath.Join(workdir, fmt.Sprintf("q%04d.smt2", idx))
	os.WriteFile(file, []byte(o.query(true)), 0o644)
	start := time.Now()
	defer func() { o.Time = time.Since(start).Seconds() }()
	if all {
		// thorough: every solver separately; disagreement is an error
		results := map[string]string{}
		var wg sync.WaitGroup
		var mu sync.Mutex
		for _, s := range solvers {
			wg.Add(1)
			go func(s solverSpec) {
				defer wg.Done()
				ctx, cancel := context.WithCancel(context.Background())
				defer cancel()
				r, text := runSolver(ctx, s, file, timeout)
				mu.Lock()
				results[s.name] = r
				if r == "sat" && o.Model == "" {
					o.Model = text
				}
				mu.Unlock()
			}(s)
		}
		wg.Wait()
		sat, unsat := "", ""
		for n, r := range results {
			if r == "sat" {
				sat = n
			}
			if r == "unsat" {
				unsat = n
			}
		}
		var parts []string
		for _, s := range solvers {
			parts = append(parts, s.name+"="+results[s.name])
		}
		o.Solver = strings.Join(parts, " ")
		switch {
		case sat != "" && unsat != "":
			o.Result = "disagreement"
		case unsat != "":
			o.Result = "unsat"
		case sat != "":
			o.Result = "sat"
		default:
			o.Result = "unknown"
		}
		return
	}
	quickT := 3
	if timeout < quickT {
		quickT = timeout
	}
	// first the goal-directed slice (hypotheses about functions foreign to the goal left out):
	// unsat there is unsat of the full query; anything else says nothing
	if o.Expect != "sat" {
		if sq, changed := o.queryText(false, true); changed {
			sfile := filepath.Join(workdir, fmt.Sprintf("q%04d.sliced.smt2", idx))
			os.WriteFile(sfile, []byte(sq), 0o644)
			ctx0, cancel0 := context.WithCancel(context.Background())
			r0, _ := runSolver(ctx0, solvers[0], sfile, quickT)
			cancel0()
			if r0 == "unsat" {
				o.Result, o.Solver = "unsat", solvers[0].name+"/sliced"
				return
			}
		}
	}
	ctx, cancel := context.WithCancel(context.Background())
	r, text := runSolver(ctx, solvers[0], file, quickT)
	cancel()
	if r == "sat" || r == "unsat" {
		o.Result, o.Solver = r, solvers[0].name
		if r == "sat" {
			o.Model = text
		}
		return
	}
	// race all three with the full timeout
	type res struct{ r, text, name string }
	ch := make(chan res, len(solvers))
	ctx2, cancel2 := context.WithCancel(context.Background())
	defer cancel2()
	for _, s := range solvers {
		go func(s solverSpec) {
			r, text := runSolver(ctx2, s, file, timeout)
			ch <- res{r, text, s.name}
		}(s)
	}
	last := res{r: "unknown"}
	for range solvers {
		x := <-ch
		if x.r == "sat" || x.r == "unsat" {
			o.Result, o.Solver = x.r, x.name
			if x.r == "sat" {
				o.Model = x.text
			}
			cancel2()
			return
		}
		if x.r != "error" || last.r == "unknown" {
			last = x
		}
	}
	o.Result, o.Solver, o.Model = last.r, last.name, last.text
}

func dischargeAll(obls []*Obligation, workdir string, timeout int, all bool, par int) {
	os.MkdirAll(workdir, 0o755)
	// an obligation recorded as a known finding is expected not to be proved: it is only given
	// a short time (enough to notice that it has started to hold, i.e. that the finding is gone)
	known := map[string]bool{}
	for _, k := range loadKnown().Findings {
		known[k.Obligation] = true
	}
	var wg sync.WaitGroup
	sem := make(chan struct{}, par)
	for i, o := range obls {
		wg.Add(1)
		sem <- struct{}{}
		go func(i int, o *Obligation) {
			defer wg.Done()
			defer func() { <-sem }()
			t := timeout
			if known[o.Name] && t > 8 {
				t = 8
			}
			discharge(o, workdir, i, t, all)
		}(i, o)
	}
	wg.Wait()
}
