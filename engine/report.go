package main

import (
	"encoding/json"
	"fmt"
	"os"
	"path/filepath"
	"sort"
	"strconv"
	"strings"
	"time"
)

type KnownFinding struct {
	Property   string `json:"property"`
	Obligation string `json:"obligation"`
	What       string `json:"what"`
}

type KnownFile struct {
	Findings []KnownFinding `json:"findings"`
	Fixed    []string       `json:"fixed"`
}

func loadKnown() KnownFile {
	var k KnownFile
	data, err := os.ReadFile(filepath.Join(verifRoot, "known_findings.json"))
	if err == nil {
		json.Unmarshal(data, &k)
	}
	return k
}

func (o *Obligation) failed() bool {
	if o.Expect == "sat" {
		// a vacuity guard fails only when the context is proved contradictory
		return o.Result == "unsat"
	}
	return o.Result != "unsat"
}

func (eng *Engine) report(prop, tier string, pc *PropConfig, obls []*Obligation, reports []fnReport, writeEvidence, verbose bool, start time.Time, loadT float64) int {
	known := loadKnown()
	isKnown := func(o *Obligation) *KnownFinding {
		for i := range known.Findings {
			k := &known.Findings[i]
			if k.Property == prop && k.Obligation == o.Name {
				return k
			}
		}
		return nil
	}
	var violations []*Obligation
	byKind := map[string]int{}
	byBackend := map[string]int{}
	discharged, counted, vacuity := 0, 0, 0
	solverTime, maxTime := 0.0, 0.0
	structural := 0
	// exit canaries: a function is vacuous when none of its returns is reachable; a
	// single unreachable return is dead code (an error path the contracts exclude), noted only
	reachable := map[string]bool{}
	for _, o := range obls {
		if o.Expect == "sat" && strings.Contains(o.Name, "/vacuity/return-reachable#") && !o.failed() {
			reachable[o.Fn] = true
		}
	}
	for _, o := range obls {
		solverTime += o.Time
		if o.Time > maxTime {
			maxTime = o.Time
		}
		if o.Expect == "sat" {
			vacuity++
			if o.failed() {
				if strings.Contains(o.Name, "/vacuity/return-reachable#") && reachable[o.Fn] {
					eng.deadReturns = append(eng.deadReturns, o.Name)
					continue
				}
				violations = append(violations, o)
			}
			continue
		}
		if o.Kind == "structural" {
			structural++
		}
		counted++
		byKind[o.Kind]++
		if !o.failed() {
			discharged++
			s := o.Solver
			if i := strings.Index(s, " "); i > 0 {
				s = "all-three"
			}
			byBackend[s]++
			continue
		}
		if k := isKnown(o); k != nil {
			fmt.Printf("KNOWN-FINDING: property=%s %s: %s\n", prop, o.Name, k.What)
			counted--
			byKind[o.Kind]--
			continue
		}
		violations = append(violations, o)
	}
	// vacuity: obligation count
	if counted == 0 || (pc.MinObligations > 0 && counted < pc.MinObligations) {
		o := &Obligation{Name: prop + "/vacuity/obligation-count#0", Kind: "vacuity", Result: "sat", Solver: "counter",
			Model: fmt.Sprintf("only %d obligations generated, expected at least %d", counted, pc.MinObligations)}
		violations = append(violations, o)
	}
	os.MkdirAll(replaysDir(), 0o755)
	for _, o := range violations {
		path := eng.writeReplay(prop, o)
		suffix := " no-failing-input-found"
		if o.replayed {
			suffix = ""
		}
		fmt.Printf("VIOLATION property=%s replay=%s obligation=%s result=%s%s\n", prop, path, o.Name, o.Result, suffix)
	}
	if verbose {
		for _, o := range obls {
			fmt.Printf("  %-8s %-8s %6.2fs %s\n", o.Result, o.Solver, o.Time, o.Name)
		}
	}
	wall := time.Since(start).Seconds()
	fmt.Printf("%s %s: %d obligations, %d discharged, %d vacuity guards, %d violations, %d functions, load %.1fs, solver %.1fs (max %.2fs), wall %.1fs\n",
		prop, tier, counted, discharged, vacuity, len(violations), len(reports), loadT, solverTime, maxTime, wall)
	if writeEvidence {
		eng.writeEvidence(prop, tier, pc, obls, reports, counted, discharged, vacuity, structural, byKind, byBackend, solverTime, maxTime, wall, len(violations))
	}
	if len(violations) > 0 {
		return 1
	}
	return 0
}

func (eng *Engine) writeReplay(prop string, o *Obligation) string {
	safe := strings.Map(func(r rune) rune {
		if r >= 'a' && r <= 'z' || r >= 'A' && r <= 'Z' || r >= '0' && r <= '9' || r == '.' || r == '-' || r == '_' {
			return r
		}
		return '_'
	}, o.Name)
	if len(safe) > 120 {
		safe = safe[:120]
	}
	path := filepath.Join(replaysDir(), prop+"-"+safe+".json")
	rep := map[string]any{
		"property":      prop,
		"obligation":    o.Name,
		"kind":          o.Kind,
		"function":      o.Fn,
		"source":        o.Src,
		"result":        o.Result,
		"solver":        o.Solver,
		"solver_output": truncate(o.Model, 20000),
	}
	if o.Expect == "sat" {
		rep["note"] = "vacuity guard: this query must be satisfiable (a contradictory precondition or unreachable exit would let everything verify)"
	}
	eng.tryReplay(prop, o, rep)
	data, _ := json.MarshalIndent(rep, "", " ")
	os.WriteFile(path, data, 0o644)
	return path
}

func replaysDir() string {
	if d := os.Getenv("VERIF_REPLAYS"); d != "" {
		return d
	}
	return filepath.Join(verifRoot, "replays")
}

func truncate(s string, n int) string {
	if len(s) > n {
		return s[:n] + "...[truncated]"
	}
	return s
}

func (eng *Engine) writeEvidence(prop, tier string, pc *PropConfig, obls []*Obligation, reports []fnReport, counted, discharged, vacuity, structural int,
	byKind, byBackend map[string]int, solverTime, maxTime, wall float64, violations int) {
	seed, _ := strconv.Atoi(os.Getenv("VERIF_SEED"))
	var samples []map[string]any
	step := 1
	if len(obls) > 8 {
		step = len(obls) / 8
	}
	for i := 0; i < len(obls); i += step {
		o := obls[i]
		size := 0
		if o.VC != nil {
			for _, l := range o.VC.sc.lines[:o.Pos] {
				size += len(l) + 1
			}
		}
		samples = append(samples, map[string]any{"obligation": o.Name, "kind": o.Kind, "source": o.Src, "result": o.Result, "backend": o.Solver, "time_s": round3(o.Time), "smt_bytes": size})
	}
	trusted := []string{"the verifier itself (govc: go/ssa front end, VC generator, contract parser) and the SMT solvers"}
	if pc.NotDecided == nil {
		pc.NotDecided = []string{}
	}
	if pc.Bounded == nil {
		pc.Bounded = []string{}
	}
	for k, c := range eng.cs.Funcs {
		if (c.Kind == "extern" || c.Kind == "iface" || c.Kind == "fnfield" || c.Trusted) && c.Bound {
			s := c.Kind + " " + k
			if c.Trusted {
				s = "trusted " + k
			}
			trusted = append(trusted, s)
		}
	}
	for n, t := range eng.usedAxioms {
		trusted = append(trusted, "axiom "+n+": "+t)
	}
	// contracts of this repository's functions that were used at call sites here
	// but are verified by another property's check (assumed in this one)
	var elsewhere []string
	nonil := []string{}
	for k, c := range eng.cs.Funcs {
		if c.Kind == "func" && c.Bound && !c.Trusted && !hasProp(c.Props, prop) {
			elsewhere = append(elsewhere, fmt.Sprintf("%s (verified under %s)", shortenPaths(strings.Replace(k, "::", ".", 1)), strings.Join(c.Props, ",")))
		}
		if c.Kind == "func" && c.NoNil && hasProp(c.Props, prop) {
			nonil = append(nonil, shortenPaths(strings.Replace(k, "::", ".", 1)))
		}
	}
	sort.Strings(elsewhere)
	sort.Strings(nonil)
	for _, e := range elsewhere {
		trusted = append(trusted, "contract assumed here, checked elsewhere: "+e)
	}
	for _, e := range nonil {
		trusted = append(trusted, "nil-dereference freedom assumed (contract flag nonil) in "+e)
	}
	sort.Strings(trusted)
	var fnNames []string
	unknown := map[string]bool{}
	for _, r := range reports {
		fnNames = append(fnNames, r.Name)
		for _, u := range r.Unknown {
			unknown[u] = true
		}
	}
	var unk []string
	for u := range unknown {
		unk = append(unk, u)
	}
	sort.Strings(unk)
	assumptions := append([]string{}, pc.Assumptions...)
	assumptions = append(assumptions,
		"A-GEN: the VC generator (govc, /verif/engine) and contract parser are correct; mitigated by vacuity guards and the must-fail corpus",
		"A-SMT: solver soundness (z3 5.1.0, z3 4.8.12, cvc5 1.0.3)",
		"A-INT: machine integers are modelled exactly (mathematical Int with explicit wrap-around at every sized operation, or overflow obligations under nowrap); residual: no slice or string is longer than 2^40 elements",
		"A-SSA: go/ssa (x/tools v0.50.0) represents the Go semantics of the subset",
		"A-EXT: every extern/iface/fnfield contract listed in trusted_base is assumed, not proved",
		"A-FRAME-EXT: callees without a contract (listed in unknown_callees) are assumed to write only byte slices passed to them",
		"what the extraction drops: goroutine scheduling, channel semantics (values havocked), recover, reflection/unsafe, IEEE rounding (floats as reals), allocation failure, memory model")
	if len(eng.fromMirror) > 0 {
		assumptions = append(assumptions, "contracts_from_mirror: "+strings.Join(eng.fromMirror, ","))
	}
	ev := map[string]any{
		"property_id": prop,
		"tier":        tier,
		"seed":        seed,
		"level":       "proof",
		"coverage": map[string]any{
			"obligations":              counted,
			"discharged":               discharged,
			"checker_cmd":              fmt.Sprintf("/verif/check %s %s", prop, tier),
			"trusted_base":             trusted,
			"functions_under_contract": reports,
			"by_kind":                  byKind,
			"by_backend":               byBackend,
			"solver_time_s":            round3(solverTime),
			"max_obligation_time_s":    round3(maxTime),
			"vacuity_guards":           vacuity,
			"structural_obligations":   structural,
			"unreachable_returns":      append([]string{}, eng.deadReturns...),
			"unknown_callees":          unk,
			"not_decided":              pc.NotDecided,
			"bounded":                  pc.Bounded,
			"samples":                  samples,
			"integers":                 "mathematical Int with explicit wrap-around at every sized operation (or an overflow obligation under `nowrap`)",
		},
		"assumptions": assumptions,
		"wall_s":      round3(wall),
		"violations":  violations,
	}
	os.MkdirAll(filepath.Join(verifRoot, "evidence"), 0o755)
	data, _ := json.MarshalIndent(ev, "", " ")
	os.WriteFile(filepath.Join(verifRoot, "evidence", prop+".json"), data, 0o644)
}

func round3(f float64) float64 {
	return float64(int(f*1000+0.5)) / 1000
}
