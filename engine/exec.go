package main

import (
	"fmt"
	"go/ast"
	"go/token"
	"go/types"
	"sort"
	"strings"

	"golang.org/x/tools/go/ssa"
)

type Obligation struct {
	Name     string
	Kind     string
	Fn       string
	Goal     Term // must hold (already guarded by reachability)
	Pos      int  // script position: lines [0,Pos) are the context
	VC       *VC
	Src      string // file:line
	Result   string // unsat / sat / unknown / timeout
	Solver   string
	Time     float64
	Model    string
	Expect   string   // "" normal; "sat" for vacuity canaries (must be satisfiable)
	Values   []string // terms whose model values are requested on sat
	replayed bool
	FC       *FnCtx // the function context that generated it (for counterexample replay)
}

type loopInfo struct {
	header  *ssa.BasicBlock
	body    map[*ssa.BasicBlock]bool
	index   int // source-order index within the function
	spec    *LoopSpec
	measure Term
}

type FnCtx struct {
	vc               *VC
	eng              *Engine
	fn               *ssa.Function
	pkg              *PkgInfo
	con              *Contract
	vals             map[ssa.Value]Val
	reach            map[*ssa.BasicBlock]Term
	out              map[*ssa.BasicBlock]*State
	done             map[*ssa.BasicBlock]bool
	loops            map[*ssa.BasicBlock]*loopInfo
	old              *State
	na0              Term
	obls             []*Obligation
	counts           map[string]int
	nowrap           bool
	cur              *ssa.BasicBlock
	params           map[string]Val
	defers           map[*ssa.BasicBlock][]*ssa.Defer
	lastRole         string // role of the local the last spec lookup resolved to (rebind.go)
	depth            int
	notes            []string
	unknownCallees   map[string]bool
	lemmaBeingProved string
	loopAny          bool
	retVals          []retInfo // for inlining
	inline           bool
	tainted          map[Term]bool // root: values through which unknown code can reach objects of this repository (callbacks)
	loopHelpers      map[ssa.Instruction]int // root: call sites of contract-less helpers whose loops take the root contract's loop specs from this index on
	loopSpecBase     int                     // inlined helper: index of its first loop among the root contract's loop specs (-1: none)
	callSite         ssa.Instruction         // inlined helper: the call instruction in the parent
	callBlock        *ssa.BasicBlock         // inlined helper: the parent's block of that call
	frameParent      *FnCtx
	iters            map[ssa.Value]*iterInfo
	pureAssumed      map[string]bool
}

type retInfo struct {
	reach Term
	st    *State
	vals  []Val
}

func (fc *FnCtx) oblig(kind, text string, goal Term, pos token.Pos) *Obligation {
	if fc.inline && (kind == "post") {
		return nil
	}
	if kind == "nil" && fc.root().con != nil && fc.root().con.NoNil {
		// `nonil` contract: nil-dereference freedom is assumed for this function (listed in the evidence)
		fc.assume(goal)
		return nil
	}
	text = strings.Join(strings.Fields(text), " ")
	if len(text) > 90 {
		text = text[:90]
	}
	base := fmt.Sprintf("%s/%s/%s", fc.eng.shortFn(fc.fn), kind, text)
	n := fc.counts[base]
	fc.counts[base] = n + 1
	name := fmt.Sprintf("%s#%d", base, n)
	g := implies(fc.reach[fc.cur], goal)
	o := &Obligation{Name: name, Kind: kind, Fn: fc.eng.shortFn(fc.fn), Goal: g, Pos: fc.vc.sc.pos(), VC: fc.vc, FC: fc}
	if pos.IsValid() {
		p := fc.eng.fset.Position(pos)
		o.Src = fmt.Sprintf("%s:%d", p.Filename, p.Line)
	}
	fc.obls = append(fc.obls, o)
	// subsequently assumed (checked on its own)
	fc.vc.sc.assert(g)
	return o
}

func (fc *FnCtx) assume(t Term) {
	fc.vc.sc.assert(implies(fc.reach[fc.cur], t))
}

// ---------------------------------------------------------------------------

func (fc *FnCtx) findLoops() {
	fc.loops = map[*ssa.BasicBlock]*loopInfo{}
	for _, b := range fc.fn.Blocks {
		for _, s := range b.Succs {
			if s.Dominates(b) { // back edge b -> s
				li := fc.loops[s]
				if li == nil {
					li = &loopInfo{header: s, body: map[*ssa.BasicBlock]bool{s: true}}
					fc.loops[s] = li
				}
				// natural loop: all nodes that reach b without passing s
				stack := []*ssa.BasicBlock{b}
				for len(stack) > 0 {
					x := stack[len(stack)-1]
					stack = stack[:len(stack)-1]
					if li.body[x] {
						continue
					}
					li.body[x] = true
					stack = append(stack, x.Preds...)
				}
			}
		}
	}
	// number loops in source order of the header's first position
	var hs []*loopInfo
	for _, li := range fc.loops {
		hs = append(hs, li)
	}
	// (ties - loops without any position - are broken by the header's block index, and an
	// enclosing loop comes before the loops it contains, so that the numbering never depends
	// on map iteration order)
	sort.Slice(hs, func(i, j int) bool {
		pi, pj := fc.blockPos(hs[i]), fc.blockPos(hs[j])
		if pi != pj {
			return pi < pj
		}
		if hs[i].body[hs[j].header] != hs[j].body[hs[i].header] {
			return hs[i].body[hs[j].header]
		}
		return hs[i].header.Index < hs[j].header.Index
	})
	for i, li := range hs {
		li.index = i
		if fc.con != nil {
			li.spec = fc.con.Loops[i]
		}
	}
	if fc.con == nil && fc.frameParent != nil && fc.loopSpecBase >= 0 {
		// an inlined helper that took over loops of the function under contract
		if rc := fc.root().con; rc != nil {
			for i, li := range hs {
				li.index = fc.loopSpecBase + i
				li.spec = rc.Loops[li.index]
			}
		}
	}
	if fc.con != nil && fc.frameParent == nil {
		fc.planLoopHelpers(hs)
	}
}

// countLoops: the number of natural-loop headers of f.
func countLoops(f *ssa.Function) int {
	seen := map[*ssa.BasicBlock]bool{}
	for _, b := range f.Blocks {
		for _, s := range b.Succs {
			if s.Dominates(b) {
				seen[s] = true
			}
		}
	}
	return len(seen)
}

// planLoopHelpers handles the refactoring "a loop that has an invariant was moved into a new
// helper function": when the contract has more loop specs than the function has loops, and
// the function calls contract-less helpers of this repository whose loops make up exactly the
// difference, the helpers are inlined and their loops take the contract's loop specs in
// source order (the call site standing where the loops used to be). Every obligation of the
// moved loops is still generated and checked; a wrong match can only fail.
func (fc *FnCtx) planLoopHelpers(hs []*loopInfo) {
	nSpecs := 0
	for i := range fc.con.Loops {
		if i+1 > nSpecs {
			nSpecs = i + 1
		}
	}
	if nSpecs <= len(hs) {
		return
	}
	type item struct {
		pos  token.Pos
		li   *loopInfo
		call ssa.Instruction
		k    int
	}
	var items []item
	for _, li := range hs {
		items = append(items, item{pos: fc.blockPos(li), li: li})
	}
	total := len(hs)
	for _, b := range fc.fn.Blocks {
		for _, in := range b.Instrs {
			c, ok := in.(*ssa.Call)
			if !ok {
				continue
			}
			f := c.Call.StaticCallee()
			if f == nil || !fc.eng.loopHelperCandidate(f) {
				continue
			}
			k := countLoops(f)
			items = append(items, item{pos: c.Pos(), call: in, k: k})
			total += k
		}
	}
	if total != nSpecs {
		return
	}
	sort.SliceStable(items, func(i, j int) bool { return items[i].pos < items[j].pos })
	next := 0
	for _, it := range items {
		if it.li != nil {
			it.li.index = next
			it.li.spec = fc.con.Loops[next]
			next++
			continue
		}
		if fc.loopHelpers == nil {
			fc.loopHelpers = map[ssa.Instruction]int{}
		}
		fc.loopHelpers[it.call] = next
		next += it.k
	}
}

func (fc *FnCtx) blockPos(li *loopInfo) token.Pos {
	best := token.Pos(1 << 40)
	for b := range li.body {
		for _, in := range b.Instrs {
			if p := in.Pos(); p.IsValid() && p < best {
				best = p
			}
			if d, ok := in.(*ssa.DebugRef); ok && d.Expr.Pos().IsValid() && d.Expr.Pos() < best {
				best = d.Expr.Pos()
			}
		}
	}
	return best
}

func (fc *FnCtx) order() []*ssa.BasicBlock {
	seen := map[*ssa.BasicBlock]bool{}
	var post []*ssa.BasicBlock
	var dfs func(b *ssa.BasicBlock)
	dfs = func(b *ssa.BasicBlock) {
		seen[b] = true
		for _, s := range b.Succs {
			if !seen[s] && !s.Dominates(b) {
				dfs(s)
			} else if !seen[s] && s.Dominates(b) {
				// back edge; target already on stack
			}
		}
		post = append(post, b)
	}
	dfs(fc.fn.Blocks[0])
	if fc.fn.Recover != nil && !seen[fc.fn.Recover] {
		// recover block: outside subset, ignored
	}
	for i, j := 0, len(post)-1; i < j; i, j = i+1, j-1 {
		post[i], post[j] = post[j], post[i]
	}
	return post
}

// edgeCond returns the condition under which control flows p -> succ index k.
func (fc *FnCtx) edgeCond(p *ssa.BasicBlock, k int) Term {
	last := p.Instrs[len(p.Instrs)-1]
	if iff, ok := last.(*ssa.If); ok {
		c := fc.val(iff.Cond).S
		if p.Succs[0] == p.Succs[1] {
			return fc.reach[p]
		}
		if k == 0 {
			return and(fc.reach[p], c)
		}
		return and(fc.reach[p], not(c))
	}
	return fc.reach[p]
}

func succIndex(p, b *ssa.BasicBlock) []int {
	var ks []int
	for k, s := range p.Succs {
		if s == b {
			ks = append(ks, k)
		}
	}
	return ks
}

type inEdge struct {
	pred *ssa.BasicBlock
	pi   int // index in b.Preds (for phi operands)
	cond Term
}

func (fc *FnCtx) inEdges(b *ssa.BasicBlock, back bool) []inEdge {
	var es []inEdge
	for pi, p := range b.Preds {
		isBack := b.Dominates(p)
		if isBack != back {
			continue
		}
		if !fc.done[p] {
			continue
		}
		if fc.reach[p] == "false" {
			continue
		}
		ks := succIndex(p, b)
		// a pred may appear twice in Preds when both If arms target b
		cnt := 0
		for j := 0; j < pi; j++ {
			if b.Preds[j] == p {
				cnt++
			}
		}
		k := ks[0]
		if cnt < len(ks) {
			k = ks[cnt]
		}
		es = append(es, inEdge{p, pi, fc.edgeCond(p, k)})
	}
	return es
}

func (fc *FnCtx) mergeStates(es []inEdge) *State {
	if len(es) == 1 {
		return fc.out[es[0].pred].clone()
	}
	st := &State{Heap: map[string]Term{}, Gh: map[string]Term{}}
	// regions not mentioned yet: if the predecessors disagree on the last whole-heap havoc
	// they passed, such a region is unknown in the merged state (fresh epoch)
	st.Epoch = fc.out[es[0].pred].Epoch
	for _, e := range es[1:] {
		if fc.out[e.pred].Epoch != st.Epoch {
			fc.vc.nextEpoch++
			st.Epoch = fc.vc.nextEpoch
			break
		}
	}
	keys := map[string]bool{}
	gkeys := map[string]bool{}
	for _, e := range es {
		for k := range fc.out[e.pred].Heap {
			keys[k] = true
		}
		for k := range fc.out[e.pred].Gh {
			gkeys[k] = true
		}
	}
	var ks []string
	for k := range keys {
		ks = append(ks, k)
	}
	sort.Strings(ks)
	for _, k := range ks {
		n, leaf := fc.vc.regionSort(k)
		var t Term
		same := true
		for i := len(es) - 1; i >= 0; i-- {
			s := fc.out[es[i].pred]
			v := fc.vc.region(s, k, n, leaf)
			if t == "" {
				t = v
			} else {
				if v != t {
					same = false
				}
				t = ite(es[i].cond, v, t)
			}
		}
		if !same {
			c := fc.vc.sc.fresh(k+"@", arraySort(n, leaf))
			fc.vc.sc.assert(eq(c, t))
			t = c
		}
		st.Heap[k] = t
	}
	var gk []string
	for k := range gkeys {
		gk = append(gk, k)
	}
	sort.Strings(gk)
	for _, k := range gk {
		var t Term
		for i := len(es) - 1; i >= 0; i-- {
			v := fc.ghost(fc.out[es[i].pred], k)
			if t == "" {
				t = v
			} else {
				t = ite(es[i].cond, v, t)
			}
		}
		st.Gh[k] = fc.vc.sc.define("gh_"+k, fc.eng.ghostSort(k), t)
	}
	var t Term
	for i := len(es) - 1; i >= 0; i-- {
		v := fc.out[es[i].pred].NA
		if t == "" {
			t = v
		} else {
			t = ite(es[i].cond, v, t)
		}
	}
	st.NA = fc.vc.sc.define("NA", "Int", t)
	return st
}

func (fc *FnCtx) ghost(st *State, name string) Term {
	if t, ok := st.Gh[name]; ok {
		return t
	}
	return fc.vc.sc.declare("ghost:"+name+"@0", fc.eng.ghostSort(name))
}

// mergeVals builds the phi value as an ite chain over edges.
func (fc *FnCtx) mergeVals(vs []Val, conds []Term) Val {
	v := vs[len(vs)-1]
	for i := len(vs) - 2; i >= 0; i-- {
		v = fc.iteVal(conds[i], vs[i], v)
	}
	return v
}

func (fc *FnCtx) iteVal(c Term, a, b Val) Val {
	r := a
	switch a.K {
	case KSlice:
		r.Sl = &SliceV{ite(c, a.Sl.Base, b.Sl.Base), ite(c, a.Sl.Off, b.Sl.Off), ite(c, a.Sl.Len, b.Sl.Len), ite(c, a.Sl.Cap, b.Sl.Cap)}
	case KStruct, KTuple:
		r.Fs = nil
		for i := range a.Fs {
			r.Fs = append(r.Fs, fc.iteVal(c, a.Fs[i], b.Fs[i]))
		}
	case KIface:
		r.S = ite(c, a.S, b.S)
		r.Tag = ite(c, a.Tag, b.Tag)
	case KPtr:
		if a.Loc != nil || b.Loc != nil {
			if a.Loc != nil && b.Loc != nil && a.Loc.Prefix == b.Loc.Prefix && len(a.Loc.Idx) == len(b.Loc.Idx) {
				l := &Loc{Prefix: a.Loc.Prefix}
				for i := range a.Loc.Idx {
					l.Idx = append(l.Idx, ite(c, a.Loc.Idx[i], b.Loc.Idx[i]))
				}
				r.Loc = l
				if a.S != "" && b.S != "" {
					r.S = ite(c, a.S, b.S)
				} else {
					r.S = ""
				}
				return r
			}
			panic(unsupported("phi of pointers into different regions"))
		}
		r.S = ite(c, a.S, b.S)
	case KFunc:
		if a.Fn != nil || b.Fn != nil {
			r = Val{K: KFunc, T: a.T, S: ite(c, fc.vc.funcID(a), fc.vc.funcID(b))}
		} else {
			r.S = ite(c, a.S, b.S)
		}
	default:
		as, bs := a.S, b.S
		if a.K == KReal && b.K == KInt {
			bs = toReal(bs)
		}
		r.S = ite(c, as, bs)
	}
	return r
}

// name a value with fresh constants so that terms stay small.
func (fc *FnCtx) nameVal(prefix string, v Val) Val {
	sc := fc.vc.sc
	switch v.K {
	case KInt, KBool, KStr, KReal:
		v.S = sc.define(prefix, leafSort(v.K), v.S)
	case KSlice:
		v.Sl = &SliceV{sc.define(prefix+".b", "Int", v.Sl.Base), sc.define(prefix+".o", "Int", v.Sl.Off), sc.define(prefix+".l", "Int", v.Sl.Len), sc.define(prefix+".c", "Int", v.Sl.Cap)}
	case KStruct, KTuple:
		fs := make([]Val, len(v.Fs))
		for i := range v.Fs {
			fs[i] = fc.nameVal(fmt.Sprintf("%s.%d", prefix, i), v.Fs[i])
		}
		v.Fs = fs
	case KIface:
		v.S = sc.define(prefix+".pl", "Int", v.S)
		v.Tag = sc.define(prefix+".tag", "Int", v.Tag)
	case KPtr:
		if v.Loc == nil {
			v.S = sc.define(prefix, "Int", v.S)
		}
	}
	return v
}

// freshVal creates an unconstrained value of type T (plus its type facts).
func (fc *FnCtx) freshVal(prefix string, T types.Type) Val {
	sc := fc.vc.sc
	switch k := kindOfType(T); k {
	case KSlice:
		v := Val{K: KSlice, T: T, Sl: &SliceV{sc.fresh(prefix+".b", "Int"), sc.fresh(prefix+".o", "Int"), sc.fresh(prefix+".l", "Int"), sc.fresh(prefix+".c", "Int")}}
		return v
	case KStruct:
		s := structOf(T)
		v := Val{K: KStruct, T: T}
		for i := 0; i < s.NumFields(); i++ {
			v.Fs = append(v.Fs, fc.freshVal(prefix+"."+s.Field(i).Name(), s.Field(i).Type()))
		}
		return v
	case KTuple:
		tu := T.(*types.Tuple)
		v := Val{K: KTuple, T: T}
		for i := 0; i < tu.Len(); i++ {
			v.Fs = append(v.Fs, fc.freshVal(fmt.Sprintf("%s.%d", prefix, i), tu.At(i).Type()))
		}
		return v
	case KIface:
		return Val{K: KIface, T: T, S: sc.fresh(prefix+".pl", "Int"), Tag: sc.fresh(prefix+".tag", "Int")}
	case KPtr:
		return fc.vc.ptrFromRef(sc.fresh(prefix, "Int"), T)
	case KArr:
		a := T.Underlying().(*types.Array)
		return Val{K: KArr, T: T, S: sc.fresh(prefix, "(Array Int "+leafSort(kindOfType(a.Elem()))+")")}
	case KFunc:
		return Val{K: KFunc, T: T, S: sc.fresh(prefix, "Int")}
	default:
		return Val{K: k, T: T, S: sc.fresh(prefix, leafSort(k))}
	}
}

// typeFacts: facts true of every value of its type that was produced before
// the current point (ranges, slice shape, refs older than the allocation counter).
func (fc *FnCtx) typeFacts(v Val, na Term) Term {
	switch v.K {
	case KInt:
		if v.T != nil {
			if _, ok := v.T.Underlying().(*types.Map); ok {
				return app("<", app("root", v.S), na)
			}
			return rangeFact(v.S, v.T)
		}
	case KSlice:
		return and(fc.vc.wellFormed(v), app("<", app("root", v.Sl.Base), na), app(">=", v.Sl.Base, "0"))
	case KPtr:
		if v.S != "" {
			return app("<", app("root", v.S), na)
		}
	case KStruct, KTuple:
		var fs []Term
		for _, f := range v.Fs {
			fs = append(fs, fc.typeFacts(f, na))
		}
		return and(fs...)
	case KIface:
		return and(app(">=", v.Tag, "0"), implies(eq(v.Tag, "0"), eq(v.S, "0")))
	case KArr:
		if len(v.Fs) > 0 {
			var fs []Term
			for _, f := range v.Fs {
				fs = append(fs, fc.typeFacts(f, na))
			}
			return and(fs...)
		}
		if a, ok := v.T.Underlying().(*types.Array); ok {
			if lo, hi, ok := intRange(a.Elem()); ok {
				return fmt.Sprintf("(forall ((i Int)) (! (and (<= %s (select %s i)) (<= (select %s i) %s)) :pattern ((select %s i))))", lo, v.S, v.S, hi, v.S)
			}
		}
	}
	return "true"
}

// ---------------------------------------------------------------------------

func (fc *FnCtx) val(v ssa.Value) Val {
	if x, ok := fc.vals[v]; ok {
		return x
	}
	switch v := v.(type) {
	case *ssa.Const:
		if v.Value == nil {
			return fc.vc.zero(v.Type())
		}
		return fc.vc.constVal(v.Value, v.Type())
	case *ssa.Global:
		x := fc.globalPtr(v)
		fc.vals[v] = x
		return x
	case *ssa.Function:
		return Val{K: KFunc, T: v.Type(), Fn: v}
	case *ssa.Builtin:
		return Val{K: KFunc, T: v.Type()}
	}
	panic(fmt.Sprintf("value %s (%T) used before definition in %s", v.Name(), v, fc.fn))
}

func (fc *FnCtx) globalPtr(g *ssa.Global) Val {
	et := g.Type().(*types.Pointer).Elem()
	name := "g:" + g.Pkg.Pkg.Name() + "." + g.Name()
	if isObjectType(et) {
		r := fc.vc.sc.declare(name, "Int")
		if !fc.vc.subs["gdecl:"+name] {
			// a package-level object: non-nil, its own root, allocated before any call, distinct from every other one
			fc.vc.subs["gdecl:"+name] = true
			id, ok := fc.eng.globalIDs[name]
			if !ok {
				id = len(fc.eng.globalIDs) + 1
				fc.eng.globalIDs[name] = id
			}
			fc.vc.sc.declareFun("globalid", []string{"Int"}, "Int")
			facts := []Term{app(">", r, "0"), eq(app("root", r), r), eq(app("globalid", r), itoa(int64(id)))}
			if fc.vc.na0 != "" {
				facts = append(facts, app("<", r, fc.vc.na0))
			}
			fc.vc.sc.assert(and(facts...))
		}
		return Val{K: KPtr, T: g.Type(), S: r}
	}
	return Val{K: KPtr, T: g.Type(), Loc: &Loc{Prefix: name}}
}

func posOf(in ssa.Instruction) token.Pos {
	if p := in.Pos(); p.IsValid() {
		return p
	}
	return token.NoPos
}

func (fc *FnCtx) srcText(n ast.Node) string {
	return fc.eng.nodeText(n)
}

// exprText returns source text for the expression at pos, when known.
func (fc *FnCtx) instrText(in ssa.Instruction) string {
	if v, ok := in.(ssa.Value); ok {
		if t, ok := fc.eng.valueText(fc.fn, v); ok {
			return t
		}
	}
	return ""
}
