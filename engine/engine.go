package main

import (
	"bytes"
	"fmt"
	"go/ast"
	"go/printer"
	"go/token"
	"go/types"
	"os"
	"path/filepath"
	"regexp"
	"sort"
	"strings"

	"golang.org/x/tools/go/packages"
	"golang.org/x/tools/go/ssa"
	"golang.org/x/tools/go/ssa/ssautil"
)

type PkgInfo struct {
	*packages.Package
	SSA *ssa.Package
}

type ufInfo struct {
	args []string
	ret  string
}

type Engine struct {
	fset         *token.FileSet
	prog         *ssa.Program
	pkgs         map[string]*PkgInfo // by path
	cs           *ContractSet
	regions      map[string]regionInfo
	typeTags     map[string]int
	tagTypes     map[int]types.Type
	closures     map[Term]Val
	boxes        map[Term]Val
	ufs          map[string]ufInfo
	texts        map[*ssa.Function]map[ssa.Value]string
	repo         string
	fromMirror   []string
	axioms       []*Lemma
	usedAxioms   map[string]string
	prop         string
	regionRef    map[string]string // leaf region -> "ref" | "map:<key sort>" when it stores references
	globalIDs    map[string]int
	deadReturns  []string
	overlayFiles map[string]string // mutant overlays (path -> replacement file), reused when replaying
}

func newEngine() *Engine {
	return &Engine{pkgs: map[string]*PkgInfo{}, cs: newContractSet(), regions: map[string]regionInfo{}, typeTags: map[string]int{},
		tagTypes: map[int]types.Type{}, closures: map[Term]Val{}, boxes: map[Term]Val{}, ufs: map[string]ufInfo{}, usedAxioms: map[string]string{}, regionRef: map[string]string{}, globalIDs: map[string]int{}, texts: map[*ssa.Function]map[ssa.Value]string{}}
}

// load loads the given package patterns of one module directory.
func (eng *Engine) load(dir string, patterns []string, overlay map[string][]byte) error {
	cfg := &packages.Config{
		Mode: packages.NeedName | packages.NeedFiles | packages.NeedCompiledGoFiles | packages.NeedImports |
			packages.NeedTypes | packages.NeedSyntax | packages.NeedTypesInfo | packages.NeedTypesSizes | packages.NeedDeps,
		Dir:        dir,
		BuildFlags: []string{"-tags=verif"},
		Fset:       eng.fset,
		Overlay:    overlay,
		ParseFile: func(fset *token.FileSet, filename string, src []byte) (*ast.File, error) {
			return parserParse(fset, filename, src)
		},
	}
	pkgs, err := packages.Load(cfg, patterns...)
	if err != nil {
		return err
	}
	var errs []string
	packages.Visit(pkgs, nil, func(p *packages.Package) {
		for _, e := range p.Errors {
			if strings.HasPrefix(p.PkgPath, "github.com/apernet/hysteria") {
				errs = append(errs, e.Error())
			}
		}
	})
	if len(errs) > 0 {
		return fmt.Errorf("package errors: %s", strings.Join(errs, "; "))
	}
	prog, _ := ssautil.AllPackages(pkgs, ssa.InstantiateGenerics|ssa.GlobalDebug)
	eng.prog = prog
	for _, p := range pkgs {
		sp := prog.Package(p.Types)
		if sp == nil {
			continue
		}
		sp.Build()
		eng.pkgs[p.PkgPath] = &PkgInfo{Package: p, SSA: sp}
	}
	// also index dependency packages of the same module (for constants in specs)
	packages.Visit(pkgs, nil, func(p *packages.Package) {
		if _, ok := eng.pkgs[p.PkgPath]; !ok {
			eng.pkgs[p.PkgPath] = &PkgInfo{Package: p, SSA: prog.Package(p.Types)}
		}
	})
	return nil
}

var pathPrefix = regexp.MustCompile(`[A-Za-z0-9_.\-]+(/[A-Za-z0-9_.\-]+)*/`)

// shortFn: function name with package paths reduced to the package name.
func (eng *Engine) shortFn(f *ssa.Function) string {
	return shortenPaths(f.String())
}

func shortenPaths(s string) string {
	return pathPrefix.ReplaceAllString(s, "")
}

// contractFor finds the contract of f: in-repo contracts are keyed by package
// path and the name written in the contract file; externs by short name.
func (eng *Engine) contractFor(f *ssa.Function) *Contract {
	if f == nil {
		return nil
	}
	origin := f
	if f.Origin() != nil {
		origin = f.Origin()
	}
	name := localName(origin)
	if origin.Pkg != nil {
		if c := eng.cs.Funcs[origin.Pkg.Pkg.Path()+"::"+name]; c != nil {
			return c
		}
		// methods of generic types are written without their type parameters in contract files
		if c := eng.cs.Funcs[origin.Pkg.Pkg.Path()+"::"+stripTypeParams(name)]; c != nil {
			return c
		}
	} else if origin.Parent() != nil && origin.Parent().Pkg != nil {
		if c := eng.cs.Funcs[origin.Parent().Pkg.Pkg.Path()+"::"+name]; c != nil {
			return c
		}
	}
	short := shortenPaths(origin.String())
	if c := eng.cs.Funcs[short]; c != nil {
		return c
	}
	if c := eng.cs.Funcs[stripTypeParams(short)]; c != nil {
		return c
	}
	return nil
}

// localName: name as written in a contract header: Func, (*T).M, (T).M, Outer$1
func localName(f *ssa.Function) string {
	s := shortenPaths(f.String())
	pkg := ""
	if f.Pkg != nil {
		pkg = f.Pkg.Pkg.Name() + "."
	} else if f.Parent() != nil && f.Parent().Pkg != nil {
		pkg = f.Parent().Pkg.Pkg.Name() + "."
	}
	if pkg == "" {
		return s
	}
	if strings.HasPrefix(s, "(*"+pkg) {
		return "(*" + s[2+len(pkg):]
	}
	if strings.HasPrefix(s, "("+pkg) {
		return "(" + s[1+len(pkg):]
	}
	return strings.TrimPrefix(s, pkg)
}

func (eng *Engine) findFunction(pkgPath, name string) *ssa.Function {
	pi := eng.pkgs[pkgPath]
	if pi == nil || pi.SSA == nil {
		return nil
	}
	var found *ssa.Function
	var visit func(f *ssa.Function)
	visit = func(f *ssa.Function) {
		if f == nil || found != nil {
			return
		}
		if localName(f) == name {
			found = f
			return
		}
		for _, a := range f.AnonFuncs {
			visit(a)
		}
	}
	for _, m := range pi.SSA.Members {
		switch m := m.(type) {
		case *ssa.Function:
			visit(m)
		case *ssa.Type:
			for _, T := range []types.Type{m.Type(), types.NewPointer(m.Type())} {
				ms := eng.prog.MethodSets.MethodSet(T)
				for i := 0; i < ms.Len(); i++ {
					f := eng.prog.MethodValue(ms.At(i))
					if f != nil && f.Synthetic == "" {
						visit(f)
					}
				}
			}
		}
	}
	if found == nil {
		// generic instantiations: the first closed instance in name order
		if is := eng.findInstances(pkgPath, name); len(is) > 0 {
			return is[0]
		}
	}
	return found
}

// findInstances lists the closed instances of the generic function or method called name in
// package pkgPath, in name order (every one of them is verified against the contract).
func (eng *Engine) findInstances(pkgPath, name string) []*ssa.Function {
	pi := eng.pkgs[pkgPath]
	if pi == nil || pi.SSA == nil {
		return nil
	}
	var out []*ssa.Function
	for f := range ssautil.AllFunctions(eng.prog) {
		if f.Origin() != nil && f.Pkg == nil && f.Origin().Pkg == pi.SSA && (localName(f.Origin()) == name || stripTypeParams(localName(f.Origin())) == name) && len(f.Blocks) > 0 && closedInstance(f) {
			out = append(out, f)
		}
	}
	sort.Slice(out, func(i, j int) bool { return out[i].String() < out[j].String() })
	return out
}

func (eng *Engine) importedPkg(pi *PkgInfo, name string) *types.Package {
	if pi == nil {
		return nil
	}
	for _, imp := range pi.Types.Imports() {
		if imp.Name() == name {
			return imp
		}
	}
	// any loaded package with that name (contracts may mention packages the file does not import)
	var cands []*types.Package
	for _, p := range eng.pkgs {
		if p.Types != nil && p.Types.Name() == name {
			cands = append(cands, p.Types)
		}
	}
	if len(cands) == 1 {
		return cands[0]
	}
	return nil
}

func (eng *Engine) ghostSort(name string) string {
	if s, ok := eng.cs.Ghosts[name]; ok {
		return s
	}
	return "Int"
}

func (eng *Engine) isGlobalRef(ref Term) (bool, bool) {
	return strings.HasPrefix(ref, "g:") || strings.HasPrefix(ref, "|g:"), true
}

func (eng *Engine) exprText(x ast.Expr) string {
	var b bytes.Buffer
	printer.Fprint(&b, token.NewFileSet(), x)
	return b.String()
}

func (eng *Engine) nodeText(n ast.Node) string {
	var b bytes.Buffer
	printer.Fprint(&b, eng.fset, n)
	s := b.String()
	s = strings.Join(strings.Fields(s), " ")
	return s
}

// valueText maps SSA values to the source expression they compute (via DebugRef).
func (eng *Engine) valueText(fn *ssa.Function, v ssa.Value) (string, bool) {
	m, ok := eng.texts[fn]
	if !ok {
		m = map[ssa.Value]string{}
		for _, b := range fn.Blocks {
			for _, in := range b.Instrs {
				if d, ok := in.(*ssa.DebugRef); ok {
					if _, have := m[d.X]; !have {
						if _, isIdent := d.Expr.(*ast.Ident); isIdent && d.IsAddr {
							continue
						}
						m[d.X] = eng.nodeText(d.Expr)
					}
				}
			}
		}
		eng.texts[fn] = m
	}
	s, ok := m[v]
	if !ok {
		// IndexAddr/FieldAddr whose load is what the DebugRef names
		for _, r := range derefUsers(v) {
			if t, ok2 := m[r]; ok2 {
				return t, true
			}
		}
	}
	return s, ok
}

func derefUsers(v ssa.Value) []ssa.Value {
	var out []ssa.Value
	refs := v.Referrers()
	if refs == nil {
		return nil
	}
	for _, r := range *refs {
		if u, ok := r.(*ssa.UnOp); ok && u.Op == token.MUL {
			out = append(out, u)
		}
	}
	return out
}

// loopHelperCandidate: a function of this repository without a contract, with a body that has
// at least one loop and is small enough to be verified in its caller's context.
func (eng *Engine) loopHelperCandidate(f *ssa.Function) bool {
	if f.Pkg == nil || !strings.HasPrefix(f.Pkg.Pkg.Path(), "github.com/apernet/hysteria") {
		return false
	}
	if len(f.Blocks) == 0 {
		f.Pkg.Build()
	}
	if len(f.Blocks) == 0 || countLoops(f) == 0 {
		return false
	}
	if eng.contractFor(f) != nil {
		return false
	}
	n := 0
	for _, b := range f.Blocks {
		n += len(b.Instrs)
	}
	return n <= 200
}

func (eng *Engine) inlinable(f *ssa.Function) bool {
	if f.Pkg == nil {
		return false
	}
	if len(f.Blocks) == 0 && (inlineDeps[f.Pkg.Pkg.Path()] || strings.HasPrefix(f.Pkg.Pkg.Path(), "github.com/apernet/hysteria")) {
		f.Pkg.Build() // packages loaded only as dependencies have no bodies yet
	}
	if len(f.Blocks) == 0 {
		return false
	}
	limit := 120
	if !strings.HasPrefix(f.Pkg.Pkg.Path(), "github.com/apernet/hysteria") {
		// small leaf helpers of these dependencies are verified from their source
		// (module cache / GOROOT) instead of being trusted
		if !inlineDeps[f.Pkg.Pkg.Path()] {
			return false
		}
		limit = 30
	}
	n := 0
	for _, b := range f.Blocks {
		n += len(b.Instrs)
		for _, s := range b.Succs {
			if s.Dominates(b) {
				return false // loops need invariants: give the helper a contract
			}
		}
	}
	return n <= limit && (f.Recover == nil || strings.HasPrefix(f.Pkg.Pkg.Path(), "github.com/apernet/hysteria"))
}

var inlineDeps = map[string]bool{
	"time": true,
	"github.com/apernet/quic-go/internal/monotime": true,
	"github.com/apernet/quic-go/monotime":          true,
	"github.com/apernet/quic-go/quicvarint":        true,
}

func (eng *Engine) needPow2(vc *VC) {
	if vc.subs["pow2ax"] {
		return
	}
	vc.subs["pow2ax"] = true
	var fs []Term
	for i := 0; i < 64; i++ {
		fs = append(fs, eq(app("pow2", itoa(int64(i))), pow2(uint(i)).String()))
	}
	vc.sc.assert(and(fs...))
}

func (eng *Engine) declareUF(vc *VC, name string) {
	u := eng.ufs[name]
	vc.sc.declareFun(name, u.args, u.ret)
}

// emitAxioms asserts every `axiom` of the contract set (they are listed in the
// evidence as trusted).
func (eng *Engine) emitAxioms(vc *VC) {
	// axioms are instantiated lazily by lemma checks; function VCs get them through evalBool
}

// readContracts collects //@ lines from zz_contracts_verif.go files of loaded
// packages, falling back to the mirror under /verif/contracts/repo.
func (eng *Engine) readContracts(mirror string) {
	var paths []string
	for p := range eng.pkgs {
		paths = append(paths, p)
	}
	sort.Strings(paths)
	for _, path := range paths {
		pi := eng.pkgs[path]
		if !strings.HasPrefix(path, "github.com/apernet/hysteria") {
			continue
		}
		found := false
		// The committed copy under /verif/contracts/repo is the specification of
		// record: the file in /repo is used when it is byte-identical, otherwise
		// (missing, edited or weakened in the tree under check) the mirror is used
		// and the evidence says so.
		if mirror != "" && len(pi.GoFiles) > 0 {
			if rel, err := filepath.Rel(eng.repo, filepath.Dir(pi.GoFiles[0])); err == nil {
				mf := filepath.Join(mirror, rel, "zz_contracts_verif.go")
				if mdata, err := os.ReadFile(mf); err == nil {
					rdata, rerr := os.ReadFile(filepath.Join(eng.repo, rel, "zz_contracts_verif.go"))
					if rerr != nil || string(rdata) != string(mdata) {
						eng.fromMirror = append(eng.fromMirror, rel)
						eng.parseContractText(string(mdata), path, pi.Types.Name(), mf)
						continue
					}
				}
			}
		}
		for _, f := range pi.Syntax {
			fn := eng.fset.Position(f.Pos()).Filename
			if filepath.Base(fn) != "zz_contracts_verif.go" {
				continue
			}
			found = true
			var lines []string
			var lnos []int
			for _, cg := range f.Comments {
				for _, c := range cg.List {
					if strings.HasPrefix(c.Text, "//@") {
						lines = append(lines, strings.TrimPrefix(c.Text, "//@"))
						lnos = append(lnos, eng.fset.Position(c.Pos()).Line)
					}
				}
			}
			eng.cs.parseLines(lines, path, pi.Types.Name(), fn, lnos)
		}
		if !found && mirror != "" && len(pi.GoFiles) > 0 {
			rel, err := filepath.Rel(eng.repo, filepath.Dir(pi.GoFiles[0]))
			if err != nil {
				continue
			}
			mf := filepath.Join(mirror, rel, "zz_contracts_verif.go")
			if data, err := os.ReadFile(mf); err == nil {
				eng.fromMirror = append(eng.fromMirror, rel)
				eng.parseContractText(string(data), path, pi.Types.Name(), mf)
			}
		}
	}
}

func (eng *Engine) parseContractText(text, pkgPath, pkgName, file string) {
	var lines []string
	var lnos []int
	for i, l := range strings.Split(text, "\n") {
		t := strings.TrimSpace(l)
		if strings.HasPrefix(t, "//@") {
			lines = append(lines, strings.TrimPrefix(t, "//@"))
			lnos = append(lnos, i+1)
		}
	}
	eng.cs.parseLines(lines, pkgPath, pkgName, file, lnos)
}

// readExterns reads trusted library contracts (plain text, same clause syntax).
func (eng *Engine) readExterns(dir string) {
	files, _ := filepath.Glob(filepath.Join(dir, "*.spec"))
	sort.Strings(files)
	for _, f := range files {
		data, err := os.ReadFile(f)
		if err != nil {
			continue
		}
		var lines []string
		var lnos []int
		for i, l := range strings.Split(string(data), "\n") {
			lines = append(lines, l)
			lnos = append(lnos, i+1)
		}
		// uf declarations: `uf name(Int, Int) Int`
		var keep []string
		var keepNo []int
		for i, l := range lines {
			t := strings.TrimSpace(l)
			if strings.HasPrefix(t, "uf ") {
				name, args, ret := parseUF(t[3:])
				eng.ufs[name] = ufInfo{args, ret}
				continue
			}
			keep = append(keep, l)
			keepNo = append(keepNo, lnos[i])
		}
		eng.cs.parseLines(keep, "", "", f, keepNo)
	}
}

func parseUF(s string) (string, []string, string) {
	i := strings.Index(s, "(")
	j := strings.LastIndex(s, ")")
	name := strings.TrimSpace(s[:i])
	var args []string
	for _, a := range splitTop(s[i+1:j], ',') {
		if a = strings.TrimSpace(a); a != "" {
			args = append(args, a)
		}
	}
	return name, args, strings.TrimSpace(s[j+1:])
}


// stripTypeParams removes type-parameter lists from a function name:
// (*compiledRule[O]).Match -> (*compiledRule).Match
func stripTypeParams(n string) string {
	var b strings.Builder
	d := 0
	for _, c := range n {
		switch {
		case c == '[':
			d++
		case c == ']':
			d--
		case d == 0:
			b.WriteRune(c)
		}
	}
	return b.String()
}
