package main

import (
	"os"
	"fmt"
	"go/ast"
	"go/types"
	"sort"
	"strings"

	"golang.org/x/tools/go/ssa"
)

// WTarget is a set of memory locations a function may write.
type WTarget struct {
	Region   string
	Idx      []Term // exact location (len == region arity) or [base] for rows/ranges
	Lo, Hi   Term   // absolute index range within the row (2-D regions)
	Row      bool   // whole row Idx[0]
	Whole    bool   // whole region
	Ghost    string
	Any      bool
	Except   []string // with Any: ghost variables that are not written
	ElemBase Term     // all element objects selem(ElemBase, _) of a slice of structs (1-D field regions)
	ElemRoot Term     // all objects stored inside the backing array ElemRoot (structs nested in its elements): root(r) == root(ElemRoot)
	ConstLen int      // with Lo/Hi: Hi - Lo when it is a small literal constant (s[e:e+8]), else 0
}

// constSliceLen recognises s[e : e+N] and s[:N] / s[0:N] with a literal N.
func (fc *FnCtx) constSliceLen(x *ast.SliceExpr) int {
	lit := func(e ast.Expr) (int, bool) {
		b, ok := e.(*ast.BasicLit)
		if !ok {
			return 0, false
		}
		n := 0
		for _, c := range b.Value {
			if c < '0' || c > '9' || n > 1000 {
				return 0, false
			}
			n = n*10 + int(c-'0')
		}
		return n, true
	}
	if x.High == nil {
		return 0
	}
	if n, ok := lit(x.High); ok {
		if x.Low == nil {
			return n
		}
		if l, ok := lit(x.Low); ok && l <= n {
			return n - l
		}
		return 0
	}
	if be, ok := x.High.(*ast.BinaryExpr); ok && be.Op.String() == "+" && x.Low != nil {
		if n, ok := lit(be.Y); ok && fc.eng.exprText(be.X) == fc.eng.exprText(x.Low) {
			return n
		}
	}
	return 0
}

// evalTargets evaluates a modifies clause to write targets.
func (fc *FnCtx) evalTargets(x ast.Expr, env *Env) []WTarget {
	switch x := x.(type) {
	case *ast.ParenExpr:
		return fc.evalTargets(x.X, env)
	case *ast.Ident:
		if x.Name == "any" {
			return []WTarget{{Any: true}}
		}
		if x.Name == "heap" {
			// every heap region, but no ghost variable (what unknown library code can change)
			var ghosts []string
			for g := range fc.eng.cs.Ghosts {
				ghosts = append(ghosts, g)
			}
			sort.Strings(ghosts)
			return []WTarget{{Any: true, Except: ghosts}}
		}
		if _, ok := fc.eng.cs.Ghosts[x.Name]; ok {
			return []WTarget{{Ghost: x.Name}}
		}
		if x.Name == "ghosts" {
			// every ghost variable (ghost state is specification-only; listing it adds no trust)
			var ts []WTarget
			var names []string
			for g := range fc.eng.cs.Ghosts {
				names = append(names, g)
			}
			sort.Strings(names)
			for _, g := range names {
				ts = append(ts, WTarget{Ghost: g})
			}
			return ts
		}
	case *ast.CallExpr:
		if id, ok := x.Fun.(*ast.Ident); ok {
			switch id.Name {
			case "all":
				p := fc.evalExpr(x.Args[0], env)
				pt, ok := p.T.Underlying().(*types.Pointer)
				if !ok {
					panic(specErr("all(x): x must be a pointer"))
				}
				return fc.objectTargets(p.S, pt.Elem())
			case "region":
				s := x.Args[0].(*ast.BasicLit).Value
				s = strings.Trim(s, "\"")
				return []WTarget{{Region: s, Whole: true}}
			case "elems":
				// elems(s): every element of slice s (all fields, for slices of structs)
				a := fc.evalExpr(x.Args[0], env)
				if a.K != KSlice {
					panic(specErr("elems(s): s must be a slice"))
				}
				et := a.T.Underlying().(*types.Slice).Elem()
				var ts []WTarget
				if su := structOf(et); su != nil {
					for i := 0; i < su.NumFields(); i++ {
						if isObjectType(su.Field(i).Type()) {
							ts = append(ts, fc.nestedElemTargets(su.Field(i).Type(), a.Sl.Base, 0)...)
							continue
						}
						for _, lf := range cellLeaves(su.Field(i).Type()) {
							ts = append(ts, WTarget{Region: typeName(et) + "." + su.Field(i).Name() + lf.suffix, ElemBase: a.Sl.Base})
						}
					}
					return ts
				}
				for _, lf := range cellLeaves(et) {
					ts = append(ts, WTarget{Region: "elem<" + leafTypeName(et) + ">" + lf.suffix, Idx: []Term{a.Sl.Base}, Row: true})
				}
				return ts
			case "mapof":
				// mapof(m): the contents (domain, size, values) of the map m refers to
				m := fc.evalExpr(x.Args[0], env)
				if _, ok := m.T.Underlying().(*types.Map); !ok {
					panic(specErr("mapof(m): m must be a map"))
				}
				var ts []WTarget
				for _, n := range fc.mapRegionNames(m.T) {
					ts = append(ts, WTarget{Region: n, Idx: []Term{m.S}})
				}
				return ts
			case "anybut":
				// everything except the listed ghost variables
				t := WTarget{Any: true}
				for _, a := range x.Args {
					if id, ok := a.(*ast.Ident); ok {
						t.Except = append(t.Except, id.Name)
					}
				}
				return []WTarget{t}
			}
		}
	case *ast.StarExpr:
		p := fc.evalExpr(x.X, env)
		pt := p.T.Underlying().(*types.Pointer)
		if p.Loc == nil {
			return fc.objectTargets(p.S, pt.Elem())
		}
		var ts []WTarget
		for _, lf := range cellLeaves(pt.Elem()) {
			ts = append(ts, WTarget{Region: p.Loc.Prefix + lf.suffix, Idx: p.Loc.Idx})
		}
		return ts
	case *ast.SelectorExpr:
		p := fc.evalExpr(x.X, env)
		pt, ok := p.T.Underlying().(*types.Pointer)
		if !ok {
			panic(specErr("modifies x.f: x must be a pointer to struct"))
		}
		s := structOf(pt.Elem())
		for i := 0; i < s.NumFields(); i++ {
			if s.Field(i).Name() == x.Sel.Name {
				fp := fc.vc.fieldPtr(p.S, pt.Elem(), i)
				if fp.Loc == nil {
					return fc.objectTargets(fp.S, s.Field(i).Type())
				}
				var ts []WTarget
				for _, lf := range cellLeaves(s.Field(i).Type()) {
					fc.regDecl(fp.Loc.Prefix+lf.suffix, len(fp.Loc.Idx), leafSort(lf.kind))
					ts = append(ts, WTarget{Region: fp.Loc.Prefix + lf.suffix, Idx: fp.Loc.Idx})
				}
				return ts
			}
		}
	case *ast.SliceExpr:
		a := fc.evalExpr(x.X, env)
		if a.K != KSlice {
			panic(specErr("modifies s[a:b]: s must be a slice"))
		}
		lo, hi := Term("0"), a.Sl.Len
		if x.Low != nil {
			lo = fc.evalExpr(x.Low, env).S
		}
		if x.High != nil {
			hi = fc.evalExpr(x.High, env).S
		}
		et := a.T.Underlying().(*types.Slice).Elem()
		if isObjectType(et) {
			panic(specErr("modifies on slices of objects: use region(...)"))
		}
		var ts []WTarget
		for _, lf := range cellLeaves(et) {
			ts = append(ts, WTarget{Region: "elem<" + leafTypeName(et) + ">" + lf.suffix, Idx: []Term{a.Sl.Base}, Lo: plus(a.Sl.Off, lo), Hi: plus(a.Sl.Off, hi), ConstLen: fc.constSliceLen(x)})
		}
		return ts
	}
	panic(specErr("unsupported modifies target: " + fc.eng.exprText(x)))
}

// nestedElemTargets lists the field regions of a struct type nested (by value) in the
// elements of the backing array base; the locations are all objects of that allocation.
func (fc *FnCtx) nestedElemTargets(T types.Type, base Term, depth int) []WTarget {
	var ts []WTarget
	if depth > 6 {
		panic(specErr("elems(s): nesting too deep"))
	}
	switch u := T.Underlying().(type) {
	case *types.Struct:
		for i := 0; i < u.NumFields(); i++ {
			ft := u.Field(i).Type()
			if isObjectType(ft) {
				ts = append(ts, fc.nestedElemTargets(ft, base, depth+1)...)
				continue
			}
			for _, lf := range cellLeaves(ft) {
				ts = append(ts, WTarget{Region: typeName(T) + "." + u.Field(i).Name() + lf.suffix, ElemRoot: base})
			}
		}
	case *types.Array:
		if isObjectType(u.Elem()) {
			ts = append(ts, fc.nestedElemTargets(u.Elem(), base, depth+1)...)
		} else {
			for _, lf := range cellLeaves(u.Elem()) {
				ts = append(ts, WTarget{Region: "elem<" + leafTypeName(u.Elem()) + ">" + lf.suffix, ElemRoot: base})
			}
		}
	}
	return ts
}

// objectTargets lists every location stored by value inside the object at ref.
func (fc *FnCtx) objectTargets(ref Term, T types.Type) []WTarget {
	var ts []WTarget
	switch u := T.Underlying().(type) {
	case *types.Struct:
		for i := 0; i < u.NumFields(); i++ {
			fp := fc.vc.fieldPtr(ref, T, i)
			ft := u.Field(i).Type()
			if fp.Loc == nil {
				ts = append(ts, fc.objectTargets(fp.S, ft)...)
				continue
			}
			for _, lf := range cellLeaves(ft) {
				fc.regDecl(fp.Loc.Prefix+lf.suffix, len(fp.Loc.Idx), leafSort(lf.kind))
				ts = append(ts, WTarget{Region: fp.Loc.Prefix + lf.suffix, Idx: fp.Loc.Idx})
			}
		}
	case *types.Array:
		if isObjectType(u.Elem()) {
			if u.Len() > 16 {
				panic(unsupported("modifies over a long array of objects"))
			}
			for i := int64(0); i < u.Len(); i++ {
				ts = append(ts, fc.objectTargets(fc.vc.elemPtr(ref, itoa(i), u.Elem()).S, u.Elem())...)
			}
			return ts
		}
		for _, lf := range cellLeaves(u.Elem()) {
			ts = append(ts, WTarget{Region: "elem<" + leafTypeName(u.Elem()) + ">" + lf.suffix, Idx: []Term{ref}, Row: true})
		}
	default:
		for _, lf := range cellLeaves(T) {
			ts = append(ts, WTarget{Region: "cell<" + leafTypeName(T) + ">" + lf.suffix, Idx: []Term{ref}})
		}
	}
	return ts
}

// havoc applies write targets to st.
func (fc *FnCtx) havoc(st *State, ts []WTarget) {
	vc := fc.vc
	for _, t := range ts {
		switch {
		case t.Any:
			vc.nextEpoch++
			st.Epoch = vc.nextEpoch
			var names []string
			for n := range vc.eng.regions {
				names = append(names, n)
			}
			sort.Strings(names)
			for _, n := range names {
				nidx, leaf := vc.regionSort(n)
				st.Heap[n] = vc.sc.fresh(n+"@", arraySort(nidx, leaf))
				vc.typeInv(n, st.Heap[n], nidx)
			}
			for g := range fc.eng.cs.Ghosts {
				kept := false
				for _, e := range t.Except {
					if e == g {
						kept = true
					}
				}
				if !kept {
					st.Gh[g] = vc.sc.fresh("gh_"+g, fc.eng.ghostSort(g))
				}
			}
		case t.Ghost != "":
			st.Gh[t.Ghost] = vc.sc.fresh("gh_"+t.Ghost, fc.eng.ghostSort(t.Ghost))
		default:
			ri, ok := vc.eng.regions[t.Region]
			if !ok {
				// not mentioned so far: element regions are registered now (their shape follows
				// from the name) so that a later read sees the havocked version, whatever the
				// order in which functions and specs touch the region
				if ri, ok = guessRegion(t.Region); !ok {
					continue
				}
				vc.eng.regions[t.Region] = ri
			}
			cur := vc.region(st, t.Region, ri.nidx, ri.leaf)
			switch {
			case t.Whole:
				st.Heap[t.Region] = vc.sc.fresh(t.Region+"@", arraySort(ri.nidx, ri.leaf))
				vc.typeInv(t.Region, st.Heap[t.Region], ri.nidx)
			case t.ElemBase != "":
				// the fields of every element object of one backing array
				nm := vc.sc.fresh(t.Region+"@", arraySort(ri.nidx, ri.leaf))
				fc.assume(fmt.Sprintf("(forall ((r Int)) (! (=> (or (>= r 0) (not (= (selem_b r) %s))) (= (select %s r) (select %s r))) :pattern ((select %s r))))", t.ElemBase, nm, cur, nm))
				st.Heap[t.Region] = nm
				vc.typeInv(t.Region, nm, ri.nidx)
			case t.ElemRoot != "":
				// the fields of every object stored inside one backing array (same allocation)
				nm := vc.sc.fresh(t.Region+"@", arraySort(ri.nidx, ri.leaf))
				fc.assume(fmt.Sprintf("(forall ((r Int)) (! (=> (not (= (root r) (root %s))) (= (select %s r) (select %s r))) :pattern ((select %s r))))", t.ElemRoot, nm, cur, nm))
				st.Heap[t.Region] = nm
				vc.typeInv(t.Region, nm, ri.nidx)
			case t.Row:
				hv := vc.sc.fresh("hv", arraySort(ri.nidx-1, ri.leaf))
				vc.typeInv(t.Region, hv, ri.nidx-1)
				vc.setRegion(st, t.Region, ri.nidx, ri.leaf, app("store", cur, t.Idx[0], hv))
			case t.Lo != "" && t.ConstLen > 0 && t.ConstLen <= 16 && os.Getenv("VERIF_CONSTLEN_HAVOC") != "off":
				// a short range of literal length: the new row is the old one with that many
				// unknown values stored, which needs no quantified frame fact
				row := app("select", cur, t.Idx[0])
				for j := 0; j < t.ConstLen; j++ {
					v := vc.sc.fresh("hvb", ri.leaf)
					vc.typeInv(t.Region, v, 0)
					row = app("store", row, plus(t.Lo, itoa(int64(j))), v)
				}
				a := vc.sc.define("hvrow", arraySort(1, ri.leaf), row)
				vc.setRegion(st, t.Region, ri.nidx, ri.leaf, app("store", cur, t.Idx[0], a))
			case t.Lo != "":
				a := vc.sc.fresh("hv", arraySort(1, ri.leaf))
				vc.typeInv(t.Region, a, 1)
				fc.assume(fmt.Sprintf("(forall ((k Int)) (! (=> (not (and (<= %s k) (< k %s))) (= (select %s k) (select (select %s %s) k))) :pattern ((select %s k))))", t.Lo, t.Hi, a, cur, t.Idx[0], a))
				vc.setRegion(st, t.Region, ri.nidx, ri.leaf, app("store", cur, t.Idx[0], a))
			default:
				if ri.nidx == 0 {
					st.Heap[t.Region] = vc.sc.fresh(t.Region+"@", ri.leaf)
					vc.typeInv(t.Region, st.Heap[t.Region], 0)
				} else {
					hv := vc.sc.fresh("hv", ri.leaf)
					vc.typeInv(t.Region, hv, 0)
					vc.setRegion(st, t.Region, ri.nidx, ri.leaf, stor(cur, t.Idx, hv))
				}
			}
		}
	}
}

// guessRegion derives the shape of an element / cell / box region from its name.
func guessRegion(name string) (regionInfo, bool) {
	nidx := 0
	switch {
	case strings.HasPrefix(name, "elem<"):
		nidx = 2
	case strings.HasPrefix(name, "cell<"), strings.HasPrefix(name, "box<"):
		nidx = 1
	default:
		return regionInfo{}, false
	}
	i := strings.Index(name, "<")
	j := strings.LastIndex(name, ">")
	if j < i {
		return regionInfo{}, false
	}
	elem, suffix := name[i+1:j], name[j+1:]
	leaf := "Int"
	if suffix == "" {
		switch elem {
		case "bool":
			leaf = "Bool"
		case "string":
			leaf = "Str"
		case "float64", "float32":
			leaf = "Real"
		}
	}
	return regionInfo{nidx, leaf}, true
}

// frameTargets of the function under verification (evaluated at entry).
func (fc *FnCtx) myTargets() ([]WTarget, bool) {
	fc = fc.root()
	if fc.con == nil {
		return nil, true
	}
	var ts []WTarget
	env := fc.env(fc.old, fc.old)
	for _, m := range fc.con.Modifies {
		for _, t := range fc.evalTargets(m.Expr, env) {
			if t.Any {
				return nil, true
			}
			ts = append(ts, t)
		}
	}
	return ts, false
}

// allowed returns the condition under which writing (region, idx) is within the frame.
func (fc *FnCtx) allowedWrite(region string, idx []Term, row bool, lo, hi Term) Term {
	ts, anyOK := fc.myTargets()
	if anyOK {
		return "true"
	}
	var cs []Term
	if len(idx) > 0 {
		cs = append(cs, app(">=", app("root", idx[0]), fc.na0))
	}
	for _, t := range ts {
		if t.Region != region {
			continue
		}
		switch {
		case t.Whole:
			return "true"
		case t.ElemBase != "":
			if len(idx) > 0 {
				cs = append(cs, and(app("<", idx[0], "0"), eq(app("selem_b", idx[0]), t.ElemBase)))
			}
		case t.ElemRoot != "":
			if len(idx) > 0 {
				cs = append(cs, eq(app("root", idx[0]), app("root", t.ElemRoot)))
			}
		case t.Row:
			cs = append(cs, eq(idx[0], t.Idx[0]))
		case t.Lo != "":
			if row {
				continue
			}
			if lo != "" {
				cs = append(cs, and(eq(idx[0], t.Idx[0]), app("<=", t.Lo, lo), app("<=", hi, t.Hi)))
			} else if len(idx) == 2 {
				cs = append(cs, and(eq(idx[0], t.Idx[0]), app("<=", t.Lo, idx[1]), app("<", idx[1], t.Hi)))
			}
		default:
			if row || lo != "" || len(idx) != len(t.Idx) {
				continue
			}
			var es []Term
			for i := range idx {
				es = append(es, eq(idx[i], t.Idx[i]))
			}
			cs = append(cs, and(es...))
		}
	}
	return or(cs...)
}

// frameCheck emits the frame obligation for a store through p of a value of type T.
func (fc *FnCtx) frameCheck(p Val, T types.Type, in ssa.Instruction, st *State) {
	if fc.root().con == nil {
		return
	}
	if _, anyOK := fc.myTargets(); anyOK {
		return
	}
	var ts []WTarget
	if p.Loc != nil {
		for _, lf := range cellLeaves(T) {
			ts = append(ts, WTarget{Region: p.Loc.Prefix + lf.suffix, Idx: p.Loc.Idx})
		}
	} else {
		ts = fc.objectTargets(p.S, T)
	}
	seen := map[string]bool{}
	var conds []Term
	for _, t := range ts {
		c := fc.allowedWrite(t.Region, t.Idx, t.Row, t.Lo, t.Hi)
		if !seen[c] {
			seen[c] = true
			conds = append(conds, c)
		}
	}
	g := and(conds...)
	if g == "true" {
		return
	}
	text := ""
	if s, ok := in.(*ssa.Store); ok {
		text = fc.nameOf(s.Addr)
	}
	fc.oblig("frame", "write "+text, g, posOf(in))
}

func (fc *FnCtx) frameCheckTargets(ts []WTarget, what string, in ssa.Instruction) {
	if fc.root().con == nil {
		return
	}
	if _, anyOK := fc.myTargets(); anyOK {
		return
	}
	var conds []Term
	seen := map[string]bool{}
	for _, t := range ts {
		var c Term
		switch {
		case t.Any:
			c = "false"
		case t.Ghost != "":
			c = "false"
			mine, _ := fc.myTargets()
			for _, m := range mine {
				if m.Ghost == t.Ghost {
					c = "true"
				}
			}
		case t.Whole:
			c = "false"
			mine, _ := fc.myTargets()
			for _, m := range mine {
				if m.Region == t.Region && m.Whole {
					c = "true"
				}
			}
		case t.ElemBase != "":
			// allowed when the backing array is fresh or the caller's frame names the same elements
			alts := []Term{app(">=", app("root", t.ElemBase), fc.root().na0), eq(t.ElemBase, "0")}
			mine, _ := fc.myTargets()
			for _, m := range mine {
				if m.Region == t.Region && (m.Whole || (m.ElemBase != "" && m.ElemBase == t.ElemBase)) {
					alts = append(alts, "true")
				} else if m.Region == t.Region && m.ElemBase != "" {
					alts = append(alts, eq(m.ElemBase, t.ElemBase))
				}
			}
			c = or(alts...)
		case t.ElemRoot != "":
			alts := []Term{app(">=", app("root", t.ElemRoot), fc.root().na0), eq(t.ElemRoot, "0")}
			mine, _ := fc.myTargets()
			for _, m := range mine {
				if m.Region == t.Region && (m.Whole || (m.ElemRoot != "" && m.ElemRoot == t.ElemRoot)) {
					alts = append(alts, "true")
				} else if m.Region == t.Region && m.ElemRoot != "" {
					alts = append(alts, eq(app("root", m.ElemRoot), app("root", t.ElemRoot)))
				}
			}
			c = or(alts...)
		default:
			c = fc.allowedWrite(t.Region, t.Idx, t.Row, t.Lo, t.Hi)
		}
		if !seen[c] {
			seen[c] = true
			conds = append(conds, c)
		}
	}
	g := and(conds...)
	if g != "true" {
		fc.oblig("frame", "callee writes "+what, g, posOf(in))
	}
}

// ---------------------------------------------------------------------------

type calleeInfo struct {
	fn      *ssa.Function
	con     *Contract
	name    string
	sig     *types.Signature
	args    []Val
	binds   []Val
	isIface bool
}

func (fc *FnCtx) resolveCallee(cc *ssa.CallCommon, st *State) calleeInfo {
	var ci calleeInfo
	ci.sig = cc.Signature()
	if cc.IsInvoke() {
		recv := fc.val(cc.Value)
		ci.args = append(ci.args, recv)
		for _, a := range cc.Args {
			ci.args = append(ci.args, fc.val(a))
		}
		ci.isIface = true
		ci.name = typeName(cc.Value.Type()) + "." + cc.Method.Name()
		ci.con = fc.eng.cs.Funcs["iface:"+ci.name]
		return ci
	}
	for _, a := range cc.Args {
		ci.args = append(ci.args, fc.val(a))
	}
	if f := cc.StaticCallee(); f != nil {
		ci.fn = f
		ci.name = fc.eng.shortFn(f)
		ci.con = fc.eng.contractFor(f)
		if mc, ok := cc.Value.(*ssa.MakeClosure); ok {
			for _, b := range mc.Bindings {
				ci.binds = append(ci.binds, fc.val(b))
			}
		}
		return ci
	}
	v := fc.val(cc.Value)
	if v.Fn != nil {
		ci.fn = v.Fn
		ci.binds = v.Bind
		ci.name = fc.eng.shortFn(v.Fn)
		ci.con = fc.eng.contractFor(v.Fn)
		return ci
	}
	// function-typed field
	if u, ok := cc.Value.(*ssa.UnOp); ok {
		if fa, ok := u.X.(*ssa.FieldAddr); ok {
			st0 := fa.X.Type().Underlying().(*types.Pointer).Elem()
			ci.name = typeName(st0) + "." + structOf(st0).Field(fa.Field).Name()
			ci.con = fc.eng.cs.Funcs["fnfield:"+ci.name]
			// the owner object is passed as the implicit first argument `this`
			ci.args = append([]Val{fc.val(fa.X)}, ci.args...)
			ci.isIface = true
			return ci
		}
	}
	// function-typed parameter of the enclosing function: `fnfield F.p(args) (results)`
	if p, ok := cc.Value.(*ssa.Parameter); ok && p.Parent() != nil {
		ci.name = localName(p.Parent()) + "." + p.Name()
		if pk := p.Parent().Pkg; pk != nil {
			ci.name = pk.Pkg.Name() + "." + ci.name
		}
		ci.con = fc.eng.cs.Funcs["fnfield:"+ci.name]
		if ci.con == nil {
			// the parameter may have been renamed: try the name it had on the pinned tree
			for i, q := range p.Parent().Params {
				if q != p {
					continue
				}
				if old := fc.eng.recordedParamName(p.Parent(), i); old != "" {
					n := localName(p.Parent()) + "." + old
					if pk := p.Parent().Pkg; pk != nil {
						n = pk.Pkg.Name() + "." + n
					}
					if c := fc.eng.cs.Funcs["fnfield:"+n]; c != nil {
						ci.name, ci.con = n, c
					}
				}
			}
		}
		if ci.con != nil {
			return ci
		}
	}
	ci.name = "dynamic:" + cc.Value.Name()
	return ci
}

func (fc *FnCtx) call(in ssa.Instruction, cc *ssa.CallCommon, st *State) {
	var resT types.Type
	if v, ok := in.(ssa.Value); ok {
		resT = v.Type()
	}
	if b, ok := cc.Value.(*ssa.Builtin); ok {
		r := fc.builtin(b, cc, in, st, resT)
		if v, ok := in.(ssa.Value); ok {
			fc.vals[v] = r
		}
		return
	}
	ci := fc.resolveCallee(cc, st)
	r := fc.applyCall(ci, in, st, resT, "call")
	if v, ok := in.(ssa.Value); ok {
		fc.vals[v] = r
	}
	fc.monitorAcquire(cc, st)
}

// calleeEnv binds the callee's parameter names to the actual arguments.
func (fc *FnCtx) calleeEnv(ci calleeInfo, cur, old *State) *Env {
	env := &Env{fc: fc, vars: map[string]Val{}, cur: cur, old: old}
	names := fc.paramNames(ci)
	for i, a := range ci.args {
		if i < len(names) && names[i] != "" && names[i] != "_" {
			env.vars[names[i]] = a
		}
		if ci.con != nil && i < len(ci.con.Params) && ci.con.Params[i] != "" && ci.con.Params[i] != "_" {
			env.vars[ci.con.Params[i]] = a
		}
		env.vars[fmt.Sprintf("arg%d", i)] = a
		if ci.fn != nil && ci.con != nil && ci.con.Kind == "func" {
			// a renamed parameter keeps the name its contract knows it by (rebind.go)
			if old := fc.eng.recordedParamName(ci.fn, i); old != "" {
				if _, clash := env.vars[old]; !clash {
					env.vars[old] = a
				}
			}
		}
	}
	if ci.sig.Recv() != nil || ci.isIface {
		if len(ci.args) > 0 {
			env.vars["this"] = ci.args[0]
		}
	}
	if ci.fn != nil {
		for i, fv := range ci.fn.FreeVars {
			if i < len(ci.binds) {
				env.vars[fv.Name()] = ci.binds[i]
			}
		}
	}
	return env
}

func (fc *FnCtx) paramNames(ci calleeInfo) []string {
	var names []string
	if ci.fn != nil && len(ci.fn.Params) == len(ci.args) {
		for _, p := range ci.fn.Params {
			names = append(names, p.Name())
		}
		return names
	}
	if ci.sig.Recv() != nil || ci.isIface {
		n := "this"
		if ci.sig.Recv() != nil && ci.sig.Recv().Name() != "" {
			n = ci.sig.Recv().Name()
		}
		names = append(names, n)
	}
	for i := 0; i < ci.sig.Params().Len(); i++ {
		names = append(names, ci.sig.Params().At(i).Name())
	}
	return names
}

func (fc *FnCtx) applyCall(ci calleeInfo, in ssa.Instruction, st *State, resT types.Type, how string) Val {
	vc := fc.vc
	text := ci.name
	// implicit non-nil receiver of pointer-receiver methods under contract
	if ci.fn != nil && ci.fn.Signature.Recv() != nil && len(ci.args) > 0 && ci.args[0].K == KPtr && ci.args[0].S != "" {
		if ci.con != nil && !ci.con.NilRecv && ci.con.Kind == "func" {
			fc.nilCheck(ci.args[0], in, "receiver of "+text)
		}
	}
	if ci.isIface && len(ci.args) > 0 && ci.args[0].K == KIface {
		fc.oblig("nil", "interface receiver of "+text, not(eq(ci.args[0].Tag, "0")), posOf(in))
	}
	fc.runHooks(ci, in, st, "before", nil)
	if ci.con == nil {
		var r Val
		_, loopHelper := fc.root().loopHelpers[in]
		if ci.fn != nil && (fc.eng.inlinable(ci.fn) && fc.depth < 3 || loopHelper && fc == fc.root()) {
			r = fc.inlineCall(ci, in, st, resT)
		} else {
			r = fc.unknownCall(ci, in, st, resT)
		}
		fc.runHooks(ci, in, st, "after", &r)
		return r
	}
	ci.con.Bound = true
	pre := st.clone()
	env := fc.calleeEnv(ci, st, st)
	for i, c := range ci.con.Requires {
		kind := "pre"
		if how == "go" {
			kind = "pre" // spawn precondition
		}
		fc.oblig(kind, fmt.Sprintf("%s/%d %s", text, i, c.Text), fc.evalBool(c.Expr, env), posOf(in))
	}
	// callee object invariants on receiver are part of its precondition
	// frame
	var ts []WTarget
	for _, m := range ci.con.Modifies {
		ts = append(ts, fc.evalTargets(m.Expr, env)...)
	}
	if len(ts) > 0 {
		fc.frameCheckTargets(ts, text, in)
		fc.havoc(st, ts)
	}
	na := vc.sc.fresh("NA", "Int")
	vc.sc.assert(app(">=", na, st.NA))
	st.NA = na
	// results
	var res Val
	if resT != nil {
		if ci.con.Pure {
			res = fc.pureResult(ci, resT)
		} else {
			res = fc.freshVal("r_"+shortName(text), resT)
		}
		fc.assume(fc.typeFacts(res, st.NA))
	}
	env2 := fc.calleeEnv(ci, st, pre)
	fc.bindCallResults(env2, ci, res)
	for _, c := range ci.con.Ensures {
		fc.assume(fc.evalBool(c.Expr, env2))
	}
	// visible-state object invariants: a method under contract re-establishes the invariant
	// of its receiver (one of its own exit obligations), so the caller may rely on it
	if ci.con.Kind == "func" && ci.fn != nil && ci.fn.Signature.Recv() != nil && len(ci.args) > 0 {
		if pt, ok := ci.fn.Signature.Recv().Type().Underlying().(*types.Pointer); ok {
			if oi := fc.eng.cs.ObjInvs[stripTypeParams(typeName(pt.Elem()))]; oi != nil {
				save := fc.pkg
				if p := fc.eng.pkgs[ci.con.PkgPath]; p != nil {
					fc.pkg = p
				}
				for _, c := range oi.Clauses {
					fc.assume(fc.evalBool(c.Expr, env2))
				}
				fc.pkg = save
			}
		}
	}
	fc.runHooks(ci, in, st, "after", &res)
	return res
}

func shortName(s string) string {
	if i := strings.LastIndexAny(s, "./)"); i >= 0 && i+1 < len(s) {
		return s[i+1:]
	}
	return s
}

func (fc *FnCtx) bindCallResults(env *Env, ci calleeInfo, res Val) {
	rs := ci.sig.Results()
	var vals []Val
	if rs.Len() == 1 {
		vals = []Val{res}
	} else if rs.Len() > 1 {
		vals = res.Fs
	}
	for i, v := range vals {
		if n := rs.At(i).Name(); n != "" && n != "_" {
			env.vars[n] = v
		}
		if ci.con != nil && i < len(ci.con.Results) && ci.con.Results[i] != "" {
			env.vars[ci.con.Results[i]] = v
		}
		env.vars[fmt.Sprintf("ret%d", i)] = v
	}
	if len(vals) == 1 {
		env.vars["ret"] = vals[0]
	}
}

func (fc *FnCtx) pureResult(ci calleeInfo, resT types.Type) Val {
	k := kindOfType(resT)
	if k != KInt && k != KBool && k != KReal && k != KStr {
		return fc.freshVal("pure", resT)
	}
	var sorts []string
	var as []Term
	var flat func(a Val)
	flat = func(a Val) {
		switch a.K {
		case KInt, KBool, KStr, KReal:
			sorts = append(sorts, leafSort(a.K))
			as = append(as, a.S)
		case KPtr:
			if a.S != "" {
				sorts = append(sorts, "Int")
				as = append(as, a.S)
			}
		case KFunc:
			sorts = append(sorts, "Int")
			as = append(as, fc.vc.funcID(a))
		case KStruct, KTuple:
			for _, f := range a.Fs {
				flat(f)
			}
		case KIface:
			sorts = append(sorts, "Int", "Int")
			as = append(as, a.S, a.Tag)
		case KSlice:
			sorts = append(sorts, "Int", "Int", "Int")
			as = append(as, a.Sl.Base, a.Sl.Off, a.Sl.Len)
		}
	}
	for _, a := range ci.args {
		flat(a)
	}
	name := "pure<" + ci.name + ">"
	fc.vc.sc.declareFun(name, sorts, leafSort(k))
	return Val{K: k, T: resT, S: app(sym(name), as...)}
}

func (fc *FnCtx) unknownCall(ci calleeInfo, in ssa.Instruction, st *State, resT types.Type) Val {
	fc.unknownCallees[ci.name] = true
	if ci.fn != nil && ci.fn.Pkg != nil && strings.HasPrefix(ci.fn.Pkg.Pkg.Path(), "github.com/apernet/hysteria") {
		// a callee from this repository without a contract (and too large to inline)
		// may write anything the repository owns: havoc every region
		fc.note("in-repo callee %s has no contract: every heap region havocked at the call", ci.name)
		fc.frameCheckTargets([]WTarget{{Any: true}}, ci.name, in)
		fc.havoc(st, []WTarget{{Any: true}})
	}
	// callbacks: unknown code that is handed an object of this repository behind an interface
	// (directly, or wrapped by earlier unknown calls: io.LimitReader(tr) -> bufio.NewReader(..))
	// may call its methods, whose effects are then unknown here: everything is havocked
	callback := false
	if !(ci.fn != nil && ci.fn.Pkg != nil && strings.HasPrefix(ci.fn.Pkg.Pkg.Path(), "github.com/apernet/hysteria")) {
		for _, a := range ci.args {
			if fc.callbackCapable(a) {
				callback = true
			}
		}
		if callback {
			fc.note("%s is handed an object of this repository behind an interface and may call back into it: every heap region havocked at the call", ci.name)
			// (ghost variables are specification state updated only by the rules attached to
			// call sites of verified functions; the heap is what a callback can change)
			var ghosts []string
			for g := range fc.eng.cs.Ghosts {
				ghosts = append(ghosts, g)
			}
			fc.frameCheckTargets([]WTarget{{Any: true, Except: ghosts}}, ci.name, in)
			fc.havoc(st, []WTarget{{Any: true, Except: ghosts}})
		}
	}
	// byte slices passed to unknown code may be overwritten
	for _, a := range ci.args {
		if a.K == KSlice {
			et := a.T.Underlying().(*types.Slice).Elem()
			if !isObjectType(et) {
				var ts []WTarget
				for _, lf := range cellLeaves(et) {
					ts = append(ts, WTarget{Region: "elem<" + leafTypeName(et) + ">" + lf.suffix, Idx: []Term{a.Sl.Base}, Row: true})
				}
				fc.havoc(st, ts)
			}
		}
	}
	// ... and so may whatever a pointer handed to it points to (directly, or boxed in an
	// interface: json Decode(&v), binary.Read(r, order, &x), fmt.Sscan(&n)), unless the
	// pointee is an object of this repository with methods (covered by the callback rule) or
	// the receiver of the call
	if !(ci.fn != nil && ci.fn.Pkg != nil && strings.HasPrefix(ci.fn.Pkg.Pkg.Path(), "github.com/apernet/hysteria")) && !callback {
		for i, a := range ci.args {
			if i == 0 && ci.fn != nil && ci.fn.Signature.Recv() != nil {
				continue
			}
			p := a
			if a.K == KIface {
				b, ok := fc.eng.boxes[a.S]
				if !ok || b.K != KPtr {
					continue
				}
				p = b
			}
			if p.K != KPtr || p.T == nil {
				continue
			}
			pt, isPtr := p.T.Underlying().(*types.Pointer)
			if !isPtr {
				continue
			}
			if n, isNamed := types.Unalias(pt.Elem()).(*types.Named); isNamed && n.Obj().Pkg() != nil &&
				!(strings.HasPrefix(n.Obj().Pkg().Path(), "github.com/apernet/hysteria") && n.NumMethods() == 0) {
				continue // a library object (opaque here) or an object of this repository with methods (callback rule)
			}
			var ts []WTarget
			func() {
				defer func() { recover() }() // pointee shapes objectTargets does not cover are left alone
				if p.Loc != nil {
					for _, lf := range cellLeaves(pt.Elem()) {
						ts = append(ts, WTarget{Region: p.Loc.Prefix + lf.suffix, Idx: p.Loc.Idx})
					}
				} else if p.S != "" {
					ts = fc.objectTargets(p.S, pt.Elem())
				}
			}()
			if len(ts) > 0 {
				fc.note("%s is handed a pointer: what it points to is havocked at the call", ci.name)
				fc.havoc(st, ts)
			}
		}
	}
	na := fc.vc.sc.fresh("NA", "Int")
	fc.vc.sc.assert(app(">=", na, st.NA))
	st.NA = na
	if resT == nil {
		return Val{K: KUnit}
	}
	res := fc.freshVal("u_"+shortName(ci.name), resT)
	fc.assume(fc.typeFacts(res, st.NA))
	if callback {
		fc.root().markTainted(res) // a wrapper around the object: handing it on is handing the object on
	}
	return res
}

// callbackCapable: an interface value built in this function from a pointer to a type of this
// repository, or a value returned by unknown code that was handed such a value.
func (fc *FnCtx) callbackCapable(a Val) bool {
	root := fc.root()
	switch a.K {
	case KIface:
		if root.tainted[a.S] {
			return true
		}
		if b, ok := fc.eng.boxes[a.S]; ok && b.T != nil {
			if pt, isPtr := b.T.Underlying().(*types.Pointer); isPtr {
				if n, isNamed := types.Unalias(pt.Elem()).(*types.Named); isNamed && n.Obj().Pkg() != nil &&
					strings.HasPrefix(n.Obj().Pkg().Path(), "github.com/apernet/hysteria") && n.NumMethods() > 0 {
					return true
				}
			}
		}
	case KPtr:
		return a.S != "" && root.tainted[a.S]
	case KStruct, KTuple:
		for _, f := range a.Fs {
			if fc.callbackCapable(f) {
				return true
			}
		}
	}
	return false
}

func (fc *FnCtx) markTainted(v Val) {
	if fc.tainted == nil {
		fc.tainted = map[Term]bool{}
	}
	switch v.K {
	case KIface, KPtr:
		if v.S != "" {
			fc.tainted[v.S] = true
		}
	case KStruct, KTuple:
		for _, f := range v.Fs {
			fc.markTainted(f)
		}
	}
}

func (fc *FnCtx) spawn(in *ssa.Go, st *State) {
	cc := in.Common()
	if _, ok := cc.Value.(*ssa.Builtin); ok {
		return
	}
	ci := fc.resolveCallee(cc, st)
	fc.runHooks(ci, in, st, "go", nil)
	if ci.con != nil {
		ci.con.Bound = true
		env := fc.calleeEnv(ci, st, st)
		for i, c := range ci.con.Requires {
			fc.oblig("pre", fmt.Sprintf("go %s/%d %s", ci.name, i, c.Text), fc.evalBool(c.Expr, env), in.Pos())
		}
	}
}

func (fc *FnCtx) recordDefer(in *ssa.Defer, st *State) {
	if fc.defers == nil {
		fc.defers = map[*ssa.BasicBlock][]*ssa.Defer{}
	}
	fc.defers[in.Block()] = append(fc.defers[in.Block()], in)
}

// runDefers replays, in reverse order, every defer whose block dominates the
// current block (defers in branches are guarded by their block's reachability).
func (fc *FnCtx) runDefers(in *ssa.RunDefers, st *State) {
	var ds []*ssa.Defer
	for _, b := range fc.fn.Blocks {
		for _, d := range fc.defers[b] {
			ds = append(ds, d)
		}
	}
	// order of registration = block order along dominator chain; reverse for execution
	for i := len(ds) - 1; i >= 0; i-- {
		d := ds[i]
		run := func(st *State) {
			cc := d.Common()
			if b, ok := cc.Value.(*ssa.Builtin); ok {
				fc.builtin(b, cc, d, st, nil)
				return
			}
			ci := fc.resolveCallee(cc, st)
			fc.applyCall(ci, d, st, nil, "defer")
		}
		if !d.Block().Dominates(fc.cur) {
			r := fc.reach[d.Block()]
			if r == "false" || r == "" {
				continue
			}
			// a defer registered on only some paths runs exactly on those paths
			fc.guarded(r, st, run)
			continue
		}
		run(st)
	}
}

// guarded executes f on the state under the extra path condition c; on the
// other paths the state is unchanged.
func (fc *FnCtx) guarded(c Term, st *State, f func(st *State)) {
	saved := fc.reach[fc.cur]
	branch := st.clone()
	fc.reach[fc.cur] = and(saved, c)
	savedSt := fc.vc.st
	fc.vc.st = branch
	f(branch)
	fc.vc.st = savedSt
	fc.reach[fc.cur] = saved
	tmp := &FnCtx{vc: fc.vc, eng: fc.eng, out: map[*ssa.BasicBlock]*State{}, reach: map[*ssa.BasicBlock]Term{}}
	b1, b2 := &ssa.BasicBlock{Index: 0}, &ssa.BasicBlock{Index: 1}
	tmp.out[b1] = branch
	tmp.out[b2] = st.clone()
	merged := tmp.mergeStates([]inEdge{{pred: b1, cond: c}, {pred: b2, cond: not(c)}})
	*st = *merged
}

// ---------------------------------------------------------------------------

func (fc *FnCtx) builtin(b *ssa.Builtin, cc *ssa.CallCommon, in ssa.Instruction, st *State, resT types.Type) Val {
	vc := fc.vc
	arg := func(i int) Val { return fc.val(cc.Args[i]) }
	switch b.Name() {
	case "len":
		v := arg(0)
		switch v.K {
		case KSlice:
			return intV(v.Sl.Len, resT)
		case KStr:
			return intV(app("slen", v.S), resT)
		case KInt:
			if mt, ok := v.T.Underlying().(*types.Map); ok {
				return intV(fc.mapSize(st, v, mt), resT)
			}
			r := fc.freshVal("chanlen", resT)
			fc.assume(app(">=", r.S, "0"))
			return r
		case KArr:
			return intV(itoa(v.T.Underlying().(*types.Array).Len()), resT)
		case KPtr:
			return intV(itoa(v.T.Underlying().(*types.Pointer).Elem().Underlying().(*types.Array).Len()), resT)
		}
	case "cap":
		v := arg(0)
		if v.K == KSlice {
			return intV(v.Sl.Cap, resT)
		}
		r := fc.freshVal("cap", resT)
		fc.assume(app(">=", r.S, "0"))
		return r
	case "min", "max":
		v := arg(0)
		for i := 1; i < len(cc.Args); i++ {
			w := arg(i)
			op := "<="
			if b.Name() == "max" {
				op = ">="
			}
			ws := w.S
			if v.K == KReal {
				ws = vc.coerce(w, KReal)
			}
			v = Val{K: v.K, T: resT, S: ite(app(op, v.S, ws), v.S, ws)}
		}
		return fc.nameVal("mm", v)
	case "copy":
		return fc.copyBuiltin(arg(0), arg(1), in, st, resT)
	case "append":
		return fc.appendBuiltin(cc, in, st, resT)
	case "panic":
		fc.oblig("panic", "explicit panic", "false", posOf(in))
		return Val{K: KUnit}
	case "delete":
		fc.mapDelete(arg(0), arg(1), in, st)
		return Val{K: KUnit}
	case "close":
		return Val{K: KUnit}
	case "print", "println":
		return Val{K: KUnit}
	case "recover":
		return Val{K: KIface, T: resT, S: "0", Tag: "0"}
	case "clear":
		// clear(s) on a slice of scalars / slices: every element of s becomes the zero value
		s := arg(0)
		if s.K != KSlice {
			panic(unsupported("clear on a map"))
		}
		et := s.T.Underlying().(*types.Slice).Elem()
		if isObjectType(et) {
			panic(unsupported("clear on a slice of structs"))
		}
		for _, lf := range cellLeaves(et) {
			name := "elem<" + leafTypeName(et) + ">" + lf.suffix
			sort := leafSort(lf.kind)
			reg := fc.vc.region(st, name, 2, sort)
			if fc.root().con != nil {
				if _, anyOK := fc.myTargets(); !anyOK {
					g := or(eq(s.Sl.Len, "0"), fc.allowedWrite(name, []Term{s.Sl.Base}, false, s.Sl.Off, plus(s.Sl.Off, s.Sl.Len)))
					if g != "true" {
						fc.oblig("frame", "clear "+fc.nameOfArg(in, 0), g, posOf(in))
					}
				}
			}
			zero := "0"
			switch sort {
			case "Bool":
				zero = "false"
			case "Real":
				zero = "0.0"
			case "Str":
				zero = fc.vc.emptyStr()
			}
			a := fc.vc.sc.fresh("clr", arraySort(1, sort))
			fc.assume(fmt.Sprintf("(forall ((k Int)) (! (= (select %s k) (ite (and (<= %s k) (< k (+ %s %s))) %s (select (select %s %s) k))) :pattern ((select %s k))))",
				a, s.Sl.Off, s.Sl.Off, s.Sl.Len, zero, reg, s.Sl.Base, a))
			fc.vc.setRegion(st, name, 2, sort, app("store", reg, s.Sl.Base, a))
		}
		return Val{K: KUnit}
	case "ssa:wrapnilchk":
		v := arg(0)
		fc.nilCheck(v, in, "method value receiver")
		return v
	}
	panic(unsupported("builtin " + b.Name()))
}

func (fc *FnCtx) copyBuiltin(dst, src Val, in ssa.Instruction, st *State, resT types.Type) Val {
	vc := fc.vc
	et := dst.T.Underlying().(*types.Slice).Elem()
	var slen Term
	if src.K == KStr {
		slen = app("slen", src.S)
	} else {
		slen = src.Sl.Len
	}
	n := vc.sc.define("copyn", "Int", ite(app("<=", dst.Sl.Len, slen), dst.Sl.Len, slen))
	if isObjectType(et) {
		// a slice of structs: the destination's elements become unknown (every field of every
		// element object of its backing array is havocked); only the count is specified
		su := structOf(et)
		if su == nil {
			panic(unsupported("copy of object slices"))
		}
		var ts []WTarget
		for i := 0; i < su.NumFields(); i++ {
			if isObjectType(su.Field(i).Type()) {
				ts = append(ts, fc.nestedElemTargets(su.Field(i).Type(), dst.Sl.Base, 0)...)
				continue
			}
			for _, lf := range cellLeaves(su.Field(i).Type()) {
				ts = append(ts, WTarget{Region: typeName(et) + "." + su.Field(i).Name() + lf.suffix, ElemBase: dst.Sl.Base})
			}
		}
		fc.frameCheckTargets(ts, "copy into "+fc.nameOfArg(in, 0), in)
		fc.havoc(st, ts)
		return intV(n, resT)
	}
	for _, lf := range cellLeaves(et) {
		name := "elem<" + leafTypeName(et) + ">" + lf.suffix
		reg := vc.region(st, name, 2, leafSort(lf.kind))
		if fc.root().con != nil {
			if _, anyOK := fc.myTargets(); !anyOK {
				g := or(eq(n, "0"), fc.allowedWrite(name, []Term{dst.Sl.Base}, false, dst.Sl.Off, plus(dst.Sl.Off, n)))
				if g != "true" {
					fc.oblig("frame", "copy into "+fc.nameOfArg(in, 0), g, posOf(in))
				}
			}
		}
		a := vc.sc.fresh("cp", arraySort(1, leafSort(lf.kind)))
		var srcAt Term
		if src.K == KStr {
			srcAt = fmt.Sprintf("(sat %s (- k %s))", src.S, dst.Sl.Off)
		} else {
			srcAt = fmt.Sprintf("(select (select %s %s) (+ %s (- k %s)))", reg, src.Sl.Base, src.Sl.Off, dst.Sl.Off)
		}
		fc.assume(fmt.Sprintf("(forall ((k Int)) (! (= (select %s k) (ite (and (<= %s k) (< k (+ %s %s))) %s (select (select %s %s) k))) :pattern ((select %s k))))",
			a, dst.Sl.Off, dst.Sl.Off, n, srcAt, reg, dst.Sl.Base, a))
		vc.setRegion(st, name, 2, leafSort(lf.kind), app("store", reg, dst.Sl.Base, a))
	}
	return intV(n, resT)
}

func (fc *FnCtx) nameOfArg(in ssa.Instruction, i int) string {
	if c, ok := in.(ssa.CallInstruction); ok && i < len(c.Common().Args) {
		return fc.nameOf(c.Common().Args[i])
	}
	return ""
}

func (fc *FnCtx) appendBuiltin(cc *ssa.CallCommon, in ssa.Instruction, st *State, resT types.Type) Val {
	vc := fc.vc
	s := fc.val(cc.Args[0])
	add := fc.val(cc.Args[1])
	et := resT.Underlying().(*types.Slice).Elem()
	var addLen Term
	if add.K == KStr {
		addLen = app("slen", add.S)
	} else {
		addLen = add.Sl.Len
	}
	newLen := vc.sc.define("applen", "Int", app("+", s.Sl.Len, addLen))
	if isObjectType(et) {
		return fc.appendStructs(s, add, et, newLen, st, resT)
	}
	// The result is modelled as a fresh backing array holding old ++ added.
	// (Go may reuse the old array when capacity allows; writes through the old
	// slice after an in-place append are outside the subset and are not relied on.)
	nb := vc.alloc(st)
	newCap := vc.sc.fresh("appcap", "Int")
	fc.assume(app(">=", newCap, newLen))
	for _, lf := range cellLeaves(et) {
		name := "elem<" + leafTypeName(et) + ">" + lf.suffix
		reg := vc.region(st, name, 2, leafSort(lf.kind))
		a := vc.sc.fresh("app", arraySort(1, leafSort(lf.kind)))
		var srcAt Term
		if add.K == KStr {
			srcAt = fmt.Sprintf("(sat %s (- k %s))", add.S, s.Sl.Len)
		} else {
			srcAt = fmt.Sprintf("(select (select %s %s) (+ %s (- k %s)))", reg, add.Sl.Base, add.Sl.Off, s.Sl.Len)
		}
		fc.assume(fmt.Sprintf("(forall ((k Int)) (! (=> (and (<= 0 k) (< k %s)) (= (select %s k) (ite (< k %s) (select (select %s %s) (+ %s k)) %s))) :pattern ((select %s k))))",
			newLen, a, s.Sl.Len, reg, s.Sl.Base, s.Sl.Off, srcAt, a))
		vc.setRegion(st, name, 2, leafSort(lf.kind), app("store", reg, nb, a))
	}
	fc.note("append modelled as copy into a fresh backing array (aliasing of spare capacity not modelled)")
	// appending nothing returns the slice itself - in particular append(nil, empty...) is nil
	none := vc.sc.define("appnone", "Bool", eq(addLen, "0"))
	return Val{K: KSlice, T: resT, Sl: &SliceV{
		vc.sc.define("appb", "Int", ite(none, s.Sl.Base, nb)),
		vc.sc.define("appo", "Int", ite(none, s.Sl.Off, "0")),
		newLen,
		vc.sc.define("appc", "Int", ite(none, s.Sl.Cap, newCap))}}
}

// appendStructs models append on a slice of structs: the result is a fresh
// backing object whose elements' fields are those of old ++ added; every other
// object keeps its fields.
func (fc *FnCtx) appendStructs(s, add Val, et types.Type, newLen Term, st *State, resT types.Type) Val {
	vc := fc.vc
	su := structOf(et)
	if su == nil || add.K != KSlice {
		panic(unsupported("append on slices of arrays"))
	}
	owner := typeName(et)
	nb := vc.alloc(st)
	newCap := vc.sc.fresh("appcap", "Int")
	fc.assume(app(">=", newCap, newLen))
	for i := 0; i < su.NumFields(); i++ {
		ft := su.Field(i).Type()
		if isObjectType(ft) {
			panic(unsupported("append on slices of structs with nested struct fields"))
		}
		for _, lf := range cellLeaves(ft) {
			name := owner + "." + su.Field(i).Name() + lf.suffix
			vc.eng.noteRegionType(owner+"."+su.Field(i).Name(), ft, "")
			sort := leafSort(lf.kind)
			cur := vc.region(st, name, 1, sort)
			nm := vc.sc.fresh(name+"@", arraySort(1, sort))
			fc.assume(fmt.Sprintf("(forall ((k Int)) (! (=> (and (<= 0 k) (< k %s)) (= (select %s (selem %s k)) (ite (< k %s) (select %s (selem %s (+ %s k))) (select %s (selem %s (+ %s (- k %s))))))) :pattern ((selem %s k))))",
				newLen, nm, nb, s.Sl.Len, cur, s.Sl.Base, s.Sl.Off, cur, add.Sl.Base, add.Sl.Off, s.Sl.Len, nb))
			fc.assume(fmt.Sprintf("(forall ((r Int)) (! (=> (or (>= r 0) (not (= (selem_b r) %s))) (= (select %s r) (select %s r))) :pattern ((select %s r))))", nb, nm, cur, nm))
			st.Heap[name] = nm
		}
	}
	fc.note("append modelled as copy into a fresh backing array (aliasing of spare capacity not modelled)")
	return Val{K: KSlice, T: resT, Sl: &SliceV{nb, "0", newLen, newCap}}
}

// ---------------------------------------------------------------------------

type invTerm struct {
	text string
	term Term
}

// objInvariants instantiates the object invariant of the receiver's type.
func (fc *FnCtx) objInvariants(cur, old *State) []invTerm {
	recv := fc.fn.Signature.Recv()
	if recv == nil || fc.con == nil {
		return nil
	}
	pt, ok := recv.Type().Underlying().(*types.Pointer)
	if !ok {
		return nil
	}
	oi := fc.eng.cs.ObjInvs[stripTypeParams(typeName(pt.Elem()))]
	if oi == nil {
		return nil
	}
	env := fc.env(cur, old)
	var out []invTerm
	for i, c := range oi.Clauses {
		out = append(out, invTerm{fmt.Sprintf("%s/%d %s", oi.TypeName, i, c.Text), fc.evalBool(c.Expr, env)})
	}
	return out
}
