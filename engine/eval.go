package main

import (
	"fmt"
	"go/ast"
	"go/constant"
	"go/token"
	"go/types"
	"math"
	"math/big"
	"strconv"
	"strings"

	"golang.org/x/tools/go/ssa"
)

type Env struct {
	fc     *FnCtx
	vars   map[string]Val
	cur    *State
	old    *State
	lookup func(name string) (Val, bool)
	inOld  bool
	depth  int
	loop   *loopInfo // the loop whose invariants are being evaluated, if any
}

func (fc *FnCtx) env(cur, old *State) *Env {
	e := &Env{fc: fc, vars: map[string]Val{}, cur: cur, old: old}
	for k, v := range fc.params {
		e.vars[k] = v
	}
	return e
}

func (e *Env) with(name string, v Val) *Env {
	n := *e
	n.vars = make(map[string]Val, len(e.vars)+1)
	for k, x := range e.vars {
		n.vars[k] = x
	}
	n.vars[name] = v
	return &n
}

func (e *Env) state() *State {
	if e.inOld {
		return e.old
	}
	return e.cur
}

type specErr string

func (fc *FnCtx) evalBool(x ast.Expr, env *Env) Term {
	v := fc.evalExpr(x, env)
	if v.K != KBool {
		panic(specErr(fmt.Sprintf("expected boolean spec expression, got kind %d: %s", v.K, fc.eng.exprText(x))))
	}
	return v.S
}

// envAtLoop resolves source variable names at a loop header.
func (fc *FnCtx) envAtLoop(li *loopInfo, st *State, over map[*ssa.Phi]Val) *Env {
	env := fc.env(st, fc.old)
	env.loop = li
	env.lookup = func(name string) (Val, bool) {
		// innermost: phis of this header
		for _, in := range li.header.Instrs {
			phi, ok := in.(*ssa.Phi)
			if !ok {
				break
			}
			if phi.Comment == name {
				fc.lastRole = fmt.Sprintf("phi:loop%d", li.index)
				if over != nil {
					if v, ok := over[phi]; ok {
						return v, true
					}
				}
				return fc.val(phi), true
			}
		}
		// a source variable that is a header phi under another name (`for i := range n`:
		// the phi is rangeint.iter, i is a debug reference to it)
		for _, in := range li.header.Instrs {
			d, ok := in.(*ssa.DebugRef)
			if !ok {
				continue
			}
			id, isId := d.Expr.(*ast.Ident)
			phi, isPhi := d.X.(*ssa.Phi)
			if !isId || !isPhi || id.Name != name || phi.Block() != li.header || d.IsAddr {
				continue
			}
			fc.lastRole = fmt.Sprintf("phi:loop%d", li.index)
			if over != nil {
				if v, ok := over[phi]; ok {
					return v, true
				}
			}
			return fc.val(phi), true
		}
		// ... and, for a loop that was moved into an inlined helper, of the loops of the function
		// under contract that enclose the call of the helper
		if fc.frameParent != nil && fc.loopSpecBase >= 0 && (name == "rangeindex" || name == "rangeint.iter") {
			root := fc.root()
			own := false
			for _, in := range li.header.Instrs {
				if phi, ok := in.(*ssa.Phi); ok && phi.Comment == name {
					own = true
				}
			}
			if !own && fc.callBlock != nil {
				for _, ol := range root.loops {
					if !ol.body[fc.callBlock] {
						continue
					}
					for _, in := range ol.header.Instrs {
						phi, ok := in.(*ssa.Phi)
						if !ok {
							break
						}
						if phi.Comment == name {
							return root.val(phi), true
						}
					}
				}
			}
		}
		// hidden loop variables (rangeindex, rangeint.iter) of the enclosing loops
		for _, ol := range fc.loops {
			if ol == li || !ol.body[li.header] {
				continue
			}
			for _, in := range ol.header.Instrs {
				phi, ok := in.(*ssa.Phi)
				if !ok {
					break
				}
				if phi.Comment == name && (name == "rangeindex" || name == "rangeint.iter") {
					return fc.val(phi), true
				}
			}
		}
		return fc.lookupVar(name, li.header, st)
	}
	return env
}

// lookupVar finds the SSA value bound to a source variable name in a block
// dominating at (the latest DebugRef in dominator order).
func (fc *FnCtx) lookupVar(name string, at *ssa.BasicBlock, st *State) (Val, bool) {
	return fc.lookupVarBefore(name, at, nil, st)
}

// lookupVarBefore: as lookupVar, but when cur is an instruction of block at,
// the references preceding cur in that block are searched first (the value of
// the source variable just before cur executes).
func (fc *FnCtx) lookupVarBefore(name string, at *ssa.BasicBlock, cur ssa.Instruction, st *State) (Val, bool) {
	var best *ssa.DebugRef
	for b := at; b != nil; b = b.Idom() {
		start := len(b.Instrs) - 1
		if b == at && cur != nil {
			for i, in := range b.Instrs {
				if in == cur {
					start = i - 1
					break
				}
			}
		}
		for i := start; i >= 0; i-- {
			d, ok := b.Instrs[i].(*ssa.DebugRef)
			if !ok {
				continue
			}
			if b == at && cur == nil {
				// only header phis/before-loop refs are meaningful; skip refs inside the header body
				if _, isPhi := d.X.(*ssa.Phi); !isPhi {
					continue
				}
			}
			id, ok := d.Expr.(*ast.Ident)
			if !ok || id.Name != name {
				continue
			}
			if v, isVar := d.Object().(*types.Var); isVar && v.IsField() {
				continue // a field name (key of a composite literal), not a variable
			}
			if _, ok := fc.vals[d.X]; !ok {
				if _, isConst := d.X.(*ssa.Const); !isConst {
					continue
				}
			}
			best = d
			break
		}
		if best != nil {
			break
		}
	}
	if best == nil {
		return Val{}, false
	}
	v := fc.val(best.X)
	if best.IsAddr {
		et := best.X.Type().Underlying().(*types.Pointer).Elem()
		return fc.vc.load(st, v, et), true
	}
	return v, true
}

func (fc *FnCtx) evalExpr(x ast.Expr, env *Env) Val {
	switch x := x.(type) {
	case *ast.ParenExpr:
		return fc.evalExpr(x.X, env)
	case *ast.BasicLit:
		switch x.Kind {
		case token.INT:
			b, ok := new(big.Int).SetString(strings.ReplaceAll(x.Value, "_", ""), 0)
			if !ok {
				panic(specErr("bad int literal " + x.Value))
			}
			return intV(bigTerm(b), nil)
		case token.FLOAT:
			r, ok := new(big.Rat).SetString(x.Value)
			if !ok {
				panic(specErr("bad float literal " + x.Value))
			}
			// a float literal in a contract denotes the float64 nearest to it, as the same
			// literal does in the code (0.8 is 3602879701896397/2^52 on both sides)
			if f, _ := r.Float64(); !math.IsInf(f, 0) {
				r.SetFloat64(f)
			}
			return Val{K: KReal, S: ratTerm(r)}
		case token.STRING:
			s, _ := strconv.Unquote(x.Value)
			return Val{K: KStr, S: fc.vc.strLit(s)}
		case token.CHAR:
			s, _ := strconv.Unquote(x.Value)
			return intV(itoa(int64(s[0])), nil)
		}
	case *ast.Ident:
		return fc.evalIdent(x, env)
	case *ast.UnaryExpr:
		v := fc.evalExpr(x.X, env)
		switch x.Op {
		case token.NOT:
			return boolV(not(v.S))
		case token.SUB:
			return Val{K: v.K, S: app("-", v.S)}
		case token.AND:
			// &x: only meaningful for pointer comparisons; unsupported
		}
	case *ast.BinaryExpr:
		return fc.evalBinary(x, env)
	case *ast.StarExpr:
		p := fc.evalExpr(x.X, env)
		pt, ok := p.T.Underlying().(*types.Pointer)
		if !ok {
			panic(specErr("dereference of non-pointer in spec"))
		}
		return fc.vc.load(env.state(), p, pt.Elem())
	case *ast.SelectorExpr:
		return fc.evalSelector(x, env)
	case *ast.IndexExpr:
		a := fc.evalExpr(x.X, env)
		i := fc.evalExpr(x.Index, env)
		return fc.evalIndex(a, i, env)
	case *ast.SliceExpr:
		a := fc.evalExpr(x.X, env)
		lo, hi := Term("0"), Term("")
		if x.Low != nil {
			lo = fc.evalExpr(x.Low, env).S
		}
		switch a.K {
		case KSlice:
			hi = a.Sl.Len
			if x.High != nil {
				hi = fc.evalExpr(x.High, env).S
			}
			return Val{K: KSlice, T: a.T, Sl: &SliceV{a.Sl.Base, plus(a.Sl.Off, lo), app("-", hi, lo), app("-", a.Sl.Cap, lo)}}
		}
		panic(specErr("slice expression on unsupported value in spec"))
	case *ast.CallExpr:
		return fc.evalCall(x, env)
	}
	panic(specErr("unsupported spec expression: " + fc.eng.exprText(x)))
}

func (fc *FnCtx) evalIdent(x *ast.Ident, env *Env) Val {
	switch x.Name {
	case "true":
		return boolV("true")
	case "false":
		return boolV("false")
	case "nil":
		return Val{K: KInt, S: "0", T: types.Typ[types.UntypedNil]}
	}
	if env.loop != nil && env.lookup != nil && !env.inOld {
		// a parameter that the loop reassigns (`for len(pattern) > 0 { ...; pattern = pattern[1:] }`):
		// in an invariant of that loop its name denotes the loop-carried value; old(...) gives
		// the value it had on entry
		if pv, isParam := fc.params[x.Name]; isParam {
			if cur, same := env.vars[x.Name]; same && cur.S == pv.S && cur.K == pv.K {
				fc.lastRole = ""
				if v, ok := env.lookup(x.Name); ok && strings.HasPrefix(fc.lastRole, "phi:") {
					return v
				}
			}
		}
	}
	if env.loop != nil && fc.frameParent != nil && fc.loopSpecBase >= 0 {
		// an invariant of the function under contract, evaluated at a loop that was moved into
		// this (inlined) helper: the helper's own loop-carried variables come first (the loop
		// updates them, the caller's variable of the same name is stale while it runs), then
		// the names of the function under contract
		if env.lookup != nil {
			fc.lastRole = ""
			if v, ok := env.lookup(x.Name); ok && strings.HasPrefix(fc.lastRole, "phi:") {
				return v
			}
		}
		root := fc.root()
		if v, ok := root.params[x.Name]; ok {
			return v
		}
		if fc.callBlock != nil {
			if v, ok := root.lookupVarBefore(x.Name, fc.callBlock, fc.callSite, env.state()); ok {
				return v
			}
		}
	}
	if v, ok := env.vars[x.Name]; ok {
		return v
	}
	if env.lookup != nil {
		fc.lastRole = ""
		if v, ok := env.lookup(x.Name); ok {
			fc.noteLocal(x.Name, debugLocals(fc.root().fn)[x.Name], fc.lastRole)
			return v
		}
	}
	if s, ok := fc.eng.cs.Ghosts[x.Name]; ok {
		if gt, typed := fc.eng.cs.GhostTypes[x.Name]; typed {
			pi := fc.eng.pkgs[gt[0]]
			if pi == nil {
				panic(specErr("typed ghost " + x.Name + ": package not loaded"))
			}
			tv, err := types.Eval(fc.eng.fset, pi.Types, token.NoPos, gt[1])
			if err != nil {
				panic(specErr("typed ghost " + x.Name + ": " + err.Error()))
			}
			return fc.vc.ptrFromRef(fc.ghost(env.state(), x.Name), tv.Type)
		}
		return Val{K: ghostKind(s), S: fc.ghost(env.state(), x.Name)}
	}
	// package-level constant or variable
	if fc.pkg != nil {
		if obj := fc.pkg.Types.Scope().Lookup(x.Name); obj != nil {
			if v, ok := fc.objVal(obj, env); ok {
				return v
			}
		}
	}
	if sf, ok := fc.eng.cs.Specs[x.Name]; ok && len(sf.Params) == 0 {
		return fc.evalExpr(sf.Body, env)
	}
	if env.lookup != nil {
		// a renamed local: bind to the only other local of the recorded type (rebind.go)
		if n2, ok := fc.rebindLocal(x.Name, env.loop); ok {
			if v, ok := env.lookup(n2); ok {
				return v
			}
		}
	}
	if v, ok := fc.counterAlias(x.Name, env); ok {
		return v
	}
	panic(specErr("unknown identifier in spec: " + x.Name))
}

// counterAlias: a loop's counter went from a named variable to the hidden index of a range
// loop or back (`for i := 0; i < n; i++` <-> `for range n` / `for i := range s` <-> the
// hidden rangeindex). When the loop has exactly one integer header phi that starts at 0 or
// -1 and steps by one, a counter name that no longer resolves denotes that phi, shifted so
// that it still counts the completed iterations. As with renamed locals this is only a
// guess about what the contract means: every obligation is still checked against the code.
func (fc *FnCtx) counterAlias(name string, env *Env) (Val, bool) {
	li := env.loop
	if li == nil || env.lookup == nil {
		return Val{}, false
	}
	if name != "rangeindex" {
		loadLocals()
		rec := localsOnDisk[fc.eng.shortFn(fc.root().fn)][name]
		want, role, _ := strings.Cut(rec, " @")
		if role != fmt.Sprintf("phi:loop%d", li.index) || (want != "int" && want != "int64" && want != "uint32" && want != "uint64" && want != "int32") {
			return Val{}, false
		}
	}
	var cnt *ssa.Phi
	start := int64(0)
	for _, in := range li.header.Instrs {
		phi, ok := in.(*ssa.Phi)
		if !ok {
			break
		}
		if _, isInt := phi.Type().Underlying().(*types.Basic); !isInt {
			continue
		}
		init, steps, good := int64(0), 0, true
		for i, e := range phi.Edges {
			if !li.body[phi.Block().Preds[i]] {
				c, isC := e.(*ssa.Const)
				if !isC || c.Value == nil {
					good = false
					break
				}
				init = c.Int64()
				continue
			}
			b, isB := e.(*ssa.BinOp)
			one, isC := ssa.Value(nil), false
			if isB {
				one = b.Y
				_, isC = one.(*ssa.Const)
			}
			if !isB || b.Op != token.ADD || b.X != ssa.Value(phi) || !isC || one.(*ssa.Const).Value == nil || one.(*ssa.Const).Int64() != 1 {
				good = false
				break
			}
			steps++
		}
		if !good || steps == 0 || (init != 0 && init != -1) {
			continue
		}
		if cnt != nil {
			return Val{}, false // more than one counter: no guess
		}
		cnt, start = phi, init
	}
	if cnt == nil || cnt.Comment == name {
		return Val{}, false
	}
	v, ok := env.lookup(cnt.Comment)
	if !ok || v.K != KInt {
		return Val{}, false
	}
	// the value the missing name would have: rangeindex runs from -1, everything else from 0
	wantStart := int64(0)
	if name == "rangeindex" {
		wantStart = -1
	}
	d := wantStart - start
	fc.note("counter %q no longer exists in %s; read as %s%+d", name, fc.eng.shortFn(fc.root().fn), cnt.Comment, d)
	if d == 0 {
		return v, true
	}
	return intV(app("+", v.S, itoa(d)), v.T), true
}

// idxTerm: the SMT term used when a spec value indexes a ghost array.
func (fc *FnCtx) idxTerm(v Val) Term {
	switch v.K {
	case KSlice:
		return v.Sl.Base
	case KIface:
		return v.S
	case KFunc:
		return fc.vc.funcID(v)
	}
	return v.S
}

func ghostKind(sort string) Kind {
	switch sort {
	case "Bool":
		return KBool
	case "Real":
		return KReal
	case "Str":
		return KStr
	case "(Array Int Int)":
		return KArr
	}
	return KInt
}

func (fc *FnCtx) objVal(obj types.Object, env *Env) (Val, bool) {
	switch o := obj.(type) {
	case *types.Const:
		return fc.vc.constVal(o.Val(), o.Type()), true
	case *types.Var:
		if sp := fc.eng.prog.Package(o.Pkg()); sp != nil {
			if g, ok := sp.Members[o.Name()].(*ssa.Global); ok {
				p := fc.globalPtr(g)
				return fc.vc.load(env.state(), p, o.Type()), true
			}
		}
	}
	return Val{}, false
}

func (fc *FnCtx) evalSelector(x *ast.SelectorExpr, env *Env) Val {
	// package-qualified?
	if id, ok := x.X.(*ast.Ident); ok {
		if _, isVar := env.vars[id.Name]; !isVar {
			if p := fc.eng.importedPkg(fc.pkg, id.Name); p != nil {
				if obj := p.Scope().Lookup(x.Sel.Name); obj != nil {
					if v, ok := fc.objVal(obj, env); ok {
						return v
					}
				}
				panic(specErr("unknown package member " + id.Name + "." + x.Sel.Name))
			}
		}
	}
	v := fc.evalExpr(x.X, env)
	return fc.selectField(v, x.Sel.Name, env)
}

func (fc *FnCtx) selectField(v Val, name string, env *Env) Val {
	T := v.T
	if T == nil {
		panic(specErr("field ." + name + " of untyped spec value"))
	}
	if pt, ok := T.Underlying().(*types.Pointer); ok {
		s := structOf(pt.Elem())
		if s == nil {
			panic(specErr("field of pointer to non-struct"))
		}
		for i := 0; i < s.NumFields(); i++ {
			if s.Field(i).Name() == name {
				fp := fc.vc.fieldPtr(v.S, pt.Elem(), i)
				if isObjectType(s.Field(i).Type()) {
					// a by-value struct field: yield a pointer-like struct handle
					if structOf(s.Field(i).Type()) != nil {
						return Val{K: KPtr, T: types.NewPointer(s.Field(i).Type()), S: fp.S}
					}
					if at, isArr := s.Field(i).Type().Underlying().(*types.Array); isArr && structOf(at.Elem()) != nil {
						// an array of structs held by value: a handle to the array, indexed through evalIndex
						return Val{K: KPtr, T: types.NewPointer(s.Field(i).Type()), S: fp.S}
					}
					return fc.vc.load(env.state(), fp, s.Field(i).Type())
				}
				return fc.vc.load(env.state(), fp, s.Field(i).Type())
			}
		}
		// embedded fields
		for i := 0; i < s.NumFields(); i++ {
			if s.Field(i).Embedded() {
				fp := fc.vc.fieldPtr(v.S, pt.Elem(), i)
				var inner Val
				if isObjectType(s.Field(i).Type()) {
					inner = Val{K: KPtr, T: types.NewPointer(s.Field(i).Type()), S: fp.S}
				} else {
					inner = fc.vc.load(env.state(), fp, s.Field(i).Type())
				}
				if r, ok := fc.trySelect(inner, name, env); ok {
					return r
				}
			}
		}
		panic(specErr("no field " + name + " in " + T.String()))
	}
	if s := structOf(T); s != nil && v.K == KStruct {
		for i := 0; i < s.NumFields(); i++ {
			if s.Field(i).Name() == name {
				return v.Fs[i]
			}
		}
	}
	panic(specErr("cannot select ." + name + " from " + T.String()))
}

func (fc *FnCtx) trySelect(v Val, name string, env *Env) (r Val, ok bool) {
	defer func() {
		if e := recover(); e != nil {
			if _, is := e.(specErr); is {
				ok = false
				return
			}
			panic(e)
		}
	}()
	return fc.selectField(v, name, env), true
}

func (fc *FnCtx) evalIndex(a, i Val, env *Env) Val {
	switch a.K {
	case KSlice:
		et := a.T.Underlying().(*types.Slice).Elem()
		p := fc.vc.elemPtr(a.Sl.Base, plus(a.Sl.Off, i.S), et)
		if structOf(et) != nil {
			return Val{K: KPtr, T: types.NewPointer(et), S: p.S} // element handle; fields selected through it
		}
		return fc.vc.load(env.state(), p, et)
	case KStr:
		return intV(app("sat", a.S, i.S), types.Typ[types.Uint8])
	case KArr:
		if a.T != nil {
			et := a.T.Underlying().(*types.Array).Elem()
			return Val{K: kindOfType(et), T: et, S: app("select", a.S, i.S)}
		}
		return intV(app("select", a.S, i.S), nil)
	case KPtr:
		if pt, ok := a.T.Underlying().(*types.Pointer); ok {
			if at, ok := pt.Elem().Underlying().(*types.Array); ok {
				p := fc.vc.elemPtr(a.S, i.S, at.Elem())
				if structOf(at.Elem()) != nil {
					return Val{K: KPtr, T: types.NewPointer(at.Elem()), S: p.S}
				}
				return fc.vc.load(env.state(), p, at.Elem())
			}
		}
	case KInt:
		if a.T != nil {
			if mt, ok := a.T.Underlying().(*types.Map); ok {
				return fc.mapGet(env.state(), a, i, mt)
			}
		}
	}
	panic(specErr("index on unsupported value in spec"))
}

func (fc *FnCtx) evalBinary(x *ast.BinaryExpr, env *Env) Val {
	switch x.Op {
	case token.LAND:
		return boolV(and(fc.evalBool(x.X, env), fc.evalBool(x.Y, env)))
	case token.LOR:
		return boolV(or(fc.evalBool(x.X, env), fc.evalBool(x.Y, env)))
	}
	a := fc.evalExpr(x.X, env)
	b := fc.evalExpr(x.Y, env)
	if x.Op == token.EQL || x.Op == token.NEQ {
		t := fc.specEq(a, b)
		if x.Op == token.NEQ {
			t = not(t)
		}
		return boolV(t)
	}
	as, bs := a.S, b.S
	k := KInt
	if a.K == KReal || b.K == KReal {
		k = KReal
		as, bs = fc.vc.coerce(a, KReal), fc.vc.coerce(b, KReal)
	}
	switch x.Op {
	case token.ADD:
		return Val{K: k, S: app("+", as, bs)}
	case token.SUB:
		return Val{K: k, S: app("-", as, bs)}
	case token.MUL:
		return Val{K: k, S: app("*", as, bs)}
	case token.QUO:
		if k == KReal {
			return Val{K: k, S: app("/", as, bs)}
		}
		return Val{K: k, S: app("div", as, bs)}
	case token.REM:
		return Val{K: k, S: app("mod", as, bs)}
	case token.LSS:
		return boolV(app("<", as, bs))
	case token.LEQ:
		return boolV(app("<=", as, bs))
	case token.GTR:
		return boolV(app(">", as, bs))
	case token.GEQ:
		return boolV(app(">=", as, bs))
	case token.SHL, token.SHR:
		n, ok := new(big.Int).SetString(bs, 10)
		if !ok || !n.IsInt64() || n.Int64() > 4096 {
			panic(specErr("shift count in spec must be a literal"))
		}
		p := pow2(uint(n.Int64())).String()
		if a0, ok := new(big.Int).SetString(as, 10); ok && x.Op == token.SHL {
			return Val{K: KInt, S: new(big.Int).Mul(a0, pow2(uint(n.Int64()))).String()}
		}
		if x.Op == token.SHL {
			return Val{K: KInt, S: app("*", as, p)}
		}
		return Val{K: KInt, S: shrTerm(as, uint(n.Int64()))}
	}
	panic(specErr("unsupported operator in spec: " + x.Op.String()))
}

func (fc *FnCtx) specEq(a, b Val) Term {
	if a.K == KBool && b.K == KBool {
		return eq(a.S, b.S)
	}
	if b.T == types.Typ[types.UntypedNil] {
		switch a.K {
		case KSlice:
			return eq(a.Sl.Base, "0")
		case KIface:
			return eq(a.Tag, "0")
		case KPtr:
			if a.S == "" {
				return "false"
			}
			return eq(a.S, "0")
		case KFunc:
			return eq(fc.vc.funcID(a), "0")
		}
		return eq(a.S, "0")
	}
	if a.T == types.Typ[types.UntypedNil] {
		return fc.specEq(b, a)
	}
	return fc.valEq(a, b)
}

func (fc *FnCtx) evalCall(x *ast.CallExpr, env *Env) Val {
	fn, ok := x.Fun.(*ast.Ident)
	if !ok {
		// method-like spec helpers are not supported; allow pkg.Const(...) conversions
		if sel, ok := x.Fun.(*ast.SelectorExpr); ok && len(x.Args) == 1 {
			_ = sel
			return fc.evalExpr(x.Args[0], env) // type conversion pkg.T(x): identity on mathematical ints
		}
		panic(specErr("unsupported call in spec: " + fc.eng.exprText(x)))
	}
	arg := func(i int) Val { return fc.evalExpr(x.Args[i], env) }
	switch fn.Name {
	case "old":
		n := *env
		n.inOld = true
		return fc.evalExpr(x.Args[0], &n)
	case "implies":
		return boolV(implies(fc.evalBool(x.Args[0], env), fc.evalBool(x.Args[1], env)))
	case "iff":
		return boolV(eq(fc.evalBool(x.Args[0], env), fc.evalBool(x.Args[1], env)))
	case "ite":
		c := fc.evalBool(x.Args[0], env)
		return fc.iteVal(c, arg(1), arg(2))
	case "len":
		v := arg(0)
		switch v.K {
		case KSlice:
			return intV(v.Sl.Len, types.Typ[types.Int])
		case KStr:
			return intV(app("slen", v.S), types.Typ[types.Int])
		case KArr:
			return intV(itoa(v.T.Underlying().(*types.Array).Len()), types.Typ[types.Int])
		case KInt:
			if mt, ok := v.T.Underlying().(*types.Map); ok {
				return intV(fc.mapSize(env.state(), v, mt), types.Typ[types.Int])
			}
		}
		panic(specErr("len of unsupported value"))
	case "cap":
		return intV(arg(0).Sl.Cap, types.Typ[types.Int])
	case "base":
		return intV(arg(0).Sl.Base, nil)
	case "off":
		return intV(arg(0).Sl.Off, nil)
	case "min":
		a, b := arg(0), arg(1)
		return Val{K: a.K, S: ite(app("<=", a.S, b.S), a.S, b.S)}
	case "max":
		a, b := arg(0), arg(1)
		return Val{K: a.K, S: ite(app(">=", a.S, b.S), a.S, b.S)}
	case "abs":
		return Val{K: KInt, S: app("abs", arg(0).S)}
	case "real":
		return Val{K: KReal, S: fc.vc.coerce(arg(0), KReal)}
	case "floor":
		return Val{K: KInt, S: app("to_int", arg(0).S)}
	case "fresh":
		v := arg(0)
		ref := v.S
		if v.K == KSlice {
			ref = v.Sl.Base
		}
		return boolV(app(">=", app("root", ref), env.old.NA))
	case "allocated":
		// allocated(x): the object x refers to exists in the state the expression is evaluated in
		// (so it differs from every object allocated later)
		v := arg(0)
		ref := v.S
		if v.K == KSlice {
			ref = v.Sl.Base
		}
		return boolV(and(app("<", app("root", ref), env.state().NA), not(eq(ref, "0"))))
	case "forallStr":
		id := x.Args[0].(*ast.Ident)
		bv := sym("qs_" + id.Name + fmt.Sprintf("_%d", env.depth))
		n := env.with(id.Name, Val{K: KStr, S: bv, T: types.Typ[types.String]})
		n.depth = env.depth + 1
		return boolV(fmt.Sprintf("(forall ((%s Str)) %s)", bv, fc.evalBool(x.Args[1], n)))
	case "forallKey":
		// forallKey(k, m, P): P holds for every key k present in map m (k has m's key type;
		// the trigger is the membership test itself)
		id := x.Args[0].(*ast.Ident)
		m := arg(1)
		mt, ok := m.T.Underlying().(*types.Map)
		if !ok {
			panic(specErr("forallKey: second argument must be a map"))
		}
		bv := sym("qk_" + id.Name + fmt.Sprintf("_%d", env.depth))
		ks := fc.keySort(mt)
		kv := Val{K: kindOfType(mt.Key()), S: bv, T: mt.Key()}
		guard := "true"
		switch kv.K {
		case KStruct:
			su := structOf(mt.Key())
			name := "Key<" + typeName(mt.Key()) + ">"
			for i := 0; i < su.NumFields(); i++ {
				ft := su.Field(i).Type()
				f := Val{K: kindOfType(ft), S: app(sym(name+"."+su.Field(i).Name()), bv), T: ft}
				if f.K == KInt {
					guard = and(guard, rangeFact(f.S, ft))
				}
				kv.Fs = append(kv.Fs, f)
			}
		case KInt:
			guard = rangeFact(bv, mt.Key())
		}
		n := env.with(id.Name, kv)
		n.depth = env.depth + 1
		in := fc.mapDom(env.state(), m, mt, bv)
		return boolV(fmt.Sprintf("(forall ((%s %s)) (! %s :pattern (%s)))", bv, ks, implies(and(in, guard), fc.evalBool(x.Args[2], n)), fc.mapDomSel(env.state(), m, mt, bv)))
	case "updrow":
		// updrow(g, i, c): ghost array g (two levels) with row i reset to the constant c everywhere
		id, ok := x.Args[0].(*ast.Ident)
		if !ok {
			panic(specErr("updrow: first argument must name a ghost variable"))
		}
		sort := fc.eng.ghostSort(id.Name)
		if !strings.HasPrefix(sort, "(Array Int (Array ") {
			panic(specErr("updrow: " + id.Name + " is not a two-level ghost array"))
		}
		row := strings.TrimSuffix(strings.TrimPrefix(sort, "(Array Int "), ")")
		a := arg(0)
		return Val{K: a.K, S: app("store", a.S, fc.idxTerm(arg(1)), "((as const "+row+") "+arg(2).S+")")}
	case "strcat":
		// strcat(a, b): the string a + b (the same application the code's + produces)
		fc.vc.sc.declareFun("strcat", []string{"Str", "Str"}, "Str")
		return Val{K: KStr, T: types.Typ[types.String], S: app("strcat", arg(0).S, arg(1).S)}
	case "pureBool", "pureStr", "pureInt":
		// pureBool("(time.Time).After", a, b): the boolean result of a `pure` extern function on
		// these arguments (the same uninterpreted application a call in the code produces)
		lit, ok := x.Args[0].(*ast.BasicLit)
		if !ok {
			panic(specErr("pureBool: first argument must be a string literal"))
		}
		name, _ := strconv.Unquote(lit.Value)
		ci := calleeInfo{name: name}
		for i := 1; i < len(x.Args); i++ {
			ci.args = append(ci.args, arg(i))
		}
		switch fn.Name {
		case "pureStr":
			return fc.pureResult(ci, types.Typ[types.String])
		case "pureInt":
			return fc.pureResult(ci, types.Typ[types.Int])
		}
		return fc.pureResult(ci, types.Typ[types.Bool])
	case "visited":
		// visited(m, k): inside a `for k, v := range m` loop, key k has already been yielded
		m := arg(0)
		mt, ok := m.T.Underlying().(*types.Map)
		if !ok {
			panic(specErr("visited: first argument must be a map"))
		}
		nIters := 0
		for _, ii := range fc.iters {
			if types.Identical(ii.mt, mt) {
				nIters++
			}
		}
		for itv, ii := range fc.iters {
			// the iterator is identified by its map value, or by its map type when the
			// function has a single range loop over a map of that type
			if !(ii.m.S == m.S || (nIters == 1 && types.Identical(ii.mt, mt))) {
				continue
			}
			ks := fc.keySort(mt)
			r := fc.vc.region(env.state(), "iter<"+mapName(mt)+">.visited", 1, "(Array "+ks+" Bool)")
			return boolV(sel(r, fc.val(itv).S, fc.keyTerm(arg(1), mt)))
		}
		panic(specErr("visited: no range loop over that map here"))
	case "forall", "exists":
		id := x.Args[0].(*ast.Ident)
		bv := sym("q_" + id.Name + fmt.Sprintf("_%d", env.depth))
		n := env.with(id.Name, intV(bv, nil))
		n.depth = env.depth + 1
		var body Term
		if len(x.Args) == 4 {
			lo, hi := fc.evalExpr(x.Args[1], env).S, fc.evalExpr(x.Args[2], env).S
			p := fc.evalBool(x.Args[3], n)
			rng := and(app("<=", lo, bv), app("<", bv, hi))
			if fn.Name == "forall" {
				body = implies(rng, p)
			} else {
				body = and(rng, p)
			}
		} else {
			body = fc.evalBool(x.Args[1], n)
		}
		return boolV(fmt.Sprintf("(%s ((%s Int)) %s)", fn.Name, bv, body))
	case "int", "int64", "uint64", "uint32", "uint16", "uint8", "int32", "uint", "byte", "ByteCount":
		v := arg(0)
		if v.K == KReal {
			return Val{K: KInt, S: app("to_int", v.S)}
		}
		return Val{K: KInt, S: v.S}
	case "float64":
		return Val{K: KReal, S: fc.vc.coerce(arg(0), KReal)}
	case "sel", "selStr", "selBool":
		// sel(a, i, j, ...): read a (nested) ghost array
		a := arg(0)
		t := a.S
		for i := 1; i < len(x.Args); i++ {
			t = app("select", t, fc.idxTerm(arg(i)))
		}
		switch fn.Name {
		case "selStr":
			return Val{K: KStr, S: t, T: types.Typ[types.String]}
		case "selBool":
			return boolV(t)
		}
		return intV(t, nil)
	case "upd":
		// upd(a, i, j, ..., v): functional update of a (nested) ghost array
		a := arg(0)
		var idx []Term
		for i := 1; i < len(x.Args)-1; i++ {
			idx = append(idx, fc.idxTerm(arg(i)))
		}
		v := arg(len(x.Args) - 1)
		return Val{K: a.K, S: stor(a.S, idx, v.S)}
	case "xor8", "and8", "or8":
		// the 8-bit bitwise operators on two variables (uninterpreted, with the axioms of the prelude)
		return intV(app(fn.Name, arg(0).S, arg(1).S), types.Typ[types.Uint8])
	case "row":
		// row(s): the backing array of slice s as a first-class integer array (element i of
		// the slice is row(s)[off(s)+i]); for slices of integers, pointers or other references
		v := arg(0)
		if v.K != KSlice {
			panic(specErr("row: argument must be a slice"))
		}
		et := v.T.Underlying().(*types.Slice).Elem()
		suffix := ""
		if len(x.Args) == 2 {
			// row(s, "len"): one component of composite elements (slices: base/off/len/cap; interfaces: pl/tag)
			lit, ok := x.Args[1].(*ast.BasicLit)
			if !ok {
				panic(specErr("row: second argument must be a string literal"))
			}
			sfx, _ := strconv.Unquote(lit.Value)
			suffix = "." + sfx
		}
		found := false
		for _, lf := range cellLeaves(et) {
			if lf.suffix == suffix && leafSort(lf.kind) == "Int" {
				found = true
			}
		}
		if isObjectType(et) || !found {
			panic(specErr("row: element type must be an integer or a reference (or name a component: row(s, \"len\"))"))
		}
		fc.vc.eng.noteRegionType("elem<"+leafTypeName(et)+">", et, "")
		reg := fc.vc.region(env.state(), "elem<"+leafTypeName(et)+">"+suffix, 2, "Int")
		return Val{K: KArr, S: fc.vc.rowOf(reg, v.Sl.Base)}
	case "regionof":
		// regionof("pkg.T.f"): a one-dimensional integer heap region (field f of every T, by reference) as an array
		lit, ok := x.Args[0].(*ast.BasicLit)
		if !ok {
			panic(specErr("regionof: argument must be a string literal"))
		}
		name, _ := strconv.Unquote(lit.Value)
		ri, ok := fc.eng.regions[name]
		if !ok {
			ri = regionInfo{1, "Int"}
		}
		if ri.nidx != 1 || ri.leaf != "Int" {
			panic(specErr("regionof: " + name + " is not a one-dimensional integer region"))
		}
		return Val{K: KArr, S: fc.vc.region(env.state(), name, 1, "Int")}
	case "permuted":
		// permuted(x): every element of slice x now equals (field by field) some element
		// x held in the old state — the part of "x was permuted" that per-element
		// predicates need
		v := arg(0)
		if v.K != KSlice {
			panic(specErr("permuted: argument must be a slice"))
		}
		et := v.T.Underlying().(*types.Slice).Elem()
		qi, qj := sym(fmt.Sprintf("q_pi_%d", env.depth)), sym(fmt.Sprintf("q_pj_%d", env.depth))
		var eqs []Term
		if su := structOf(et); su != nil {
			for i := 0; i < su.NumFields(); i++ {
				ft := su.Field(i).Type()
				if isObjectType(ft) {
					panic(specErr("permuted: nested struct fields not supported"))
				}
				for _, lf := range cellLeaves(ft) {
					name := typeName(et) + "." + su.Field(i).Name() + lf.suffix
					cur := fc.vc.region(env.cur, name, 1, leafSort(lf.kind))
					old := fc.vc.region(env.old, name, 1, leafSort(lf.kind))
					eqs = append(eqs, eq(app("select", cur, app("selem", v.Sl.Base, plus(v.Sl.Off, qi))), app("select", old, app("selem", v.Sl.Base, plus(v.Sl.Off, qj)))))
				}
			}
		} else {
			for _, lf := range cellLeaves(et) {
				name := "elem<" + leafTypeName(et) + ">" + lf.suffix
				cur := fc.vc.region(env.cur, name, 2, leafSort(lf.kind))
				old := fc.vc.region(env.old, name, 2, leafSort(lf.kind))
				eqs = append(eqs, eq(sel(cur, v.Sl.Base, plus(v.Sl.Off, qi)), sel(old, v.Sl.Base, plus(v.Sl.Off, qj))))
			}
		}
		return boolV(fmt.Sprintf("(forall ((%s Int)) (=> (and (<= 0 %s) (< %s %s)) (exists ((%s Int)) (and (<= 0 %s) (< %s %s) %s))))", qi, qi, qi, v.Sl.Len, qj, qj, qj, v.Sl.Len, and(eqs...)))
	case "mkkey":
		// mkkey(m, f1, f2, ...): a value of map m's struct key type built from its fields
		m := arg(0)
		mt, ok := m.T.Underlying().(*types.Map)
		if !ok || structOf(mt.Key()) == nil {
			panic(specErr("mkkey: first argument must be a map with a struct key"))
		}
		su := structOf(mt.Key())
		if su.NumFields() != len(x.Args)-1 {
			panic(specErr("mkkey: wrong number of key fields"))
		}
		kv := Val{K: KStruct, T: mt.Key()}
		for i := 1; i < len(x.Args); i++ {
			f := arg(i)
			f.T = su.Field(i - 1).Type()
			kv.Fs = append(kv.Fs, f)
		}
		return kv
	case "indom":
		// indom(m, k): key k is present in map m
		m := arg(0)
		mt, ok := m.T.Underlying().(*types.Map)
		if !ok {
			panic(specErr("indom: first argument must be a map"))
		}
		return boolV(fc.mapDom(env.state(), m, mt, fc.keyTerm(arg(1), mt)))
	case "isnil":
		return boolV(fc.specEq(arg(0), Val{K: KInt, S: "0", T: types.Typ[types.UntypedNil]}))
	case "tagof":
		return intV(arg(0).Tag, nil)
	case "typetag", "ptrof":
		// typetag("*[]byte"): the dynamic-type tag of that Go type;
		// ptrof(x, "*[]byte"): the pointer held by interface value x, read as that pointer type
		lit, ok := x.Args[len(x.Args)-1].(*ast.BasicLit)
		if !ok || fc.pkg == nil {
			panic(specErr(fn.Name + ": the type must be a string literal"))
		}
		ts, _ := strconv.Unquote(lit.Value)
		// evaluated at the function under verification, so that its file's imports are in scope
		tv, err := types.Eval(fc.eng.fset, fc.pkg.Types, fc.root().fn.Pos(), ts)
		if err != nil {
			tv, err = types.Eval(fc.eng.fset, fc.pkg.Types, token.NoPos, ts)
		}
		if err != nil {
			panic(specErr(fn.Name + ": " + err.Error()))
		}
		if fn.Name == "typetag" {
			return intV(fc.typeTag(tv.Type), nil)
		}
		return fc.vc.ptrFromRef(arg(0).S, tv.Type)
	case "unbox":
		// the value that was converted to the interface value given (known when the
		// conversion happened in the function under verification)
		v := arg(0)
		b, ok := fc.eng.boxes[v.S]
		if !ok {
			panic(specErr("unbox: argument is not an interface built from a value in this function"))
		}
		return b
	case "unboxptr", "sizeofptr":
		// the pointer that was converted to the interface value given (known when the
		// conversion happened in the function under verification)
		v := arg(0)
		p, ok := fc.eng.boxes[v.S]
		if !ok || p.K != KPtr {
			panic(specErr(fn.Name + ": argument is not an interface built from a pointer in this function"))
		}
		if fn.Name == "unboxptr" {
			return p
		}
		pt, _ := p.T.Underlying().(*types.Pointer)
		if pt != nil {
			if b, ok := pt.Elem().Underlying().(*types.Basic); ok {
				bits, _ := intBits(b)
				return intV(itoa(int64(bits/8)), nil)
			}
		}
		panic(specErr("sizeofptr: pointee is not a sized integer"))
	case "payload":
		// the reference an interface / pointer / map value holds
		return intV(fc.idxTerm(arg(0)), nil)
	case "string":
		v := arg(0)
		if v.K == KStr {
			return v
		}
	}
	if sf, ok := fc.eng.cs.Specs[fn.Name]; ok {
		if len(sf.Params) != len(x.Args) {
			panic(specErr("spec func " + fn.Name + ": wrong number of arguments"))
		}
		if sf.Rec {
			var as []Val
			for i := range x.Args {
				as = append(as, arg(i))
			}
			return fc.evalRecCall(sf, as, env)
		}
		if env.depth > 40 {
			panic(specErr("spec func recursion too deep: " + fn.Name))
		}
		n := &Env{fc: fc, vars: map[string]Val{}, cur: env.cur, old: env.old, inOld: env.inOld, depth: env.depth + 1}
		for i, p := range sf.Params {
			n.vars[p] = arg(i)
		}
		return fc.evalExpr(sf.Body, n)
	}
	if i := strings.Index(fn.Name, "_"); i > 0 && fc.pkg != nil {
		key := fc.pkg.Types.Name() + "." + fn.Name[:i] + "." + fn.Name[i+1:]
		if _, here := fc.eng.cs.Funcs["fnfield:"+key]; !here && len(x.Args) > 0 {
			// the field's owner may live in another package: take it from the argument's type
			if pt, isP := arg(0).T.(*types.Pointer); isP {
				if nt, isN := pt.Elem().(*types.Named); isN && nt.Obj().Pkg() != nil {
					key = nt.Obj().Pkg().Name() + "." + fn.Name[:i] + "." + fn.Name[i+1:]
				}
			}
		}
		if con, ok := fc.eng.cs.Funcs["fnfield:"+key]; ok && con.Pure {
			con.Bound = true
			this := arg(0)
			name := "pure<" + key + ">"
			fc.vc.sc.declareFun(name, []string{"Int"}, "Int")
			r := Val{K: KInt, S: app(sym(name), this.S)}
			// the field contract's ensures hold of every result
			env2 := &Env{fc: fc, vars: map[string]Val{"this": this, "ret": r}, cur: env.cur, old: env.old}
			if len(con.Results) > 0 {
				env2.vars[con.Results[0]] = r
			}
			if !fc.pureAssumed[r.S] {
				if fc.pureAssumed == nil {
					fc.pureAssumed = map[string]bool{}
				}
				fc.pureAssumed[r.S] = true
				for _, c := range con.Ensures {
					fc.vc.sc.assert(fc.evalBool(c.Expr, env2))
				}
			}
			return r
		}
	}
	if uf, ok := fc.eng.ufs[fn.Name]; ok {
		var as []Term
		for i := range x.Args {
			as = append(as, arg(i).S)
		}
		fc.eng.declareUF(fc.vc, fn.Name)
		return Val{K: ghostKind(uf.ret), S: app(sym(fn.Name), as...)}
	}
	panic(specErr("unknown function in spec: " + fn.Name))
}

var _ = constant.MakeBool
