package main

import (
	"fmt"
	"go/types"
	"strings"

	"golang.org/x/tools/go/ssa"
)

func hookMatches(h *Hook, name string) bool {
	if h.Pattern == name {
		return true
	}
	if strings.Contains(name, "[") {
		// instances of generic functions and methods go by the generic's name
		if n := stripTypeParams(name); n != name && hookMatches(h, n) {
			return true
		}
	}
	if strings.HasSuffix(name, "."+h.Pattern) || strings.HasSuffix(name, ")."+h.Pattern) {
		return true
	}
	// (*pkg.T).M may be written (*T).M
	if strings.HasPrefix(name, "(") {
		if i := strings.Index(name, "."); i > 0 && i < strings.Index(name, ")") {
			j := strings.LastIndexAny(name[:i], "(*")
			if name[:j+1]+name[i+1:] == h.Pattern {
				return true
			}
		}
	}
	return false
}

func (fc *FnCtx) hookActive(h *Hook) bool {
	if len(h.Props) > 0 && fc.eng.prop != "" && !hasProp(h.Props, fc.eng.prop) {
		return false
	}
	// a hook declared in a package's contract file applies to that package's functions only
	if h.PkgPath != "" {
		r := fc.root()
		if r.fn == nil {
			return false
		}
		p := r.fn.Pkg
		if p == nil && r.fn.Parent() != nil {
			p = r.fn.Parent().Pkg
		}
		if p == nil && r.fn.Origin() != nil {
			p = r.fn.Origin().Pkg
		}
		if p == nil || p.Pkg.Path() != h.PkgPath {
			return false
		}
	}
	if len(h.In) > 0 {
		r := fc.root()
		if r.fn == nil || !allowedIn(r.fn, h.In) {
			return false
		}
	}
	return true
}

// runHooks applies ghost updates and guard obligations attached to call sites.
// phase: "before" (call about to happen), "after" (call returned; res bound), "go" (spawn).
func (fc *FnCtx) runHooks(ci calleeInfo, in ssa.Instruction, st *State, phase string, res *Val) {
	if len(fc.eng.cs.Hooks) == 0 {
		return
	}
	// guards are evaluated in the state before any ghost update of this site
	hooks := make([]*Hook, 0, len(fc.eng.cs.Hooks))
	for _, h := range fc.eng.cs.Hooks {
		if h.IsGuard {
			hooks = append(hooks, h)
		}
	}
	for _, h := range fc.eng.cs.Hooks {
		if !h.IsGuard {
			hooks = append(hooks, h)
		}
	}
	for _, h := range hooks {
		if (h.Kind != "call" && h.Kind != "go") || !hookMatches(h, ci.name) || !fc.hookActive(h) {
			continue
		}
		if (h.Kind == "go") != (phase == "go") {
			continue
		}
		if phase == "before" && h.After && !h.IsGuard {
			continue
		}
		if phase == "after" && !(h.After && !h.IsGuard) {
			continue
		}
		// the enclosing function's names, then the hook's own parameter names
		// (the callee's parameter names are deliberately not in scope: they
		// would shadow the caller's)
		env := fc.root().env(st, fc.root().old)
		for i, p := range h.Params {
			if i < len(ci.args) && p != "_" {
				env.vars[p] = ci.args[i]
			}
		}
		if phase == "after" && res != nil {
			rs := ci.sig.Results()
			var vals []Val
			if rs.Len() == 1 {
				vals = []Val{*res}
			} else if rs.Len() > 1 {
				vals = res.Fs
			}
			for i, n := range h.Results {
				if i < len(vals) && n != "_" {
					env.vars[n] = vals[i]
				}
			}
		}
		fc.applyHook(h, env, ci.name, in, st)
	}
}

func (fc *FnCtx) applyHook(h *Hook, env *Env, what string, in ssa.Instruction, st *State) {
	if fc == fc.root() && env.lookup == nil && fc.cur != nil {
		// local variables of the enclosing function, with their value just before this instruction
		cur := fc.cur
		env.lookup = func(name string) (Val, bool) { return fc.lookupVarBefore(name, cur, in, st) }
	} else if fc != fc.root() && env.lookup == nil && fc.cur != nil {
		// the instruction sits in a helper inlined into the function under contract (the call
		// was moved there by a refactoring): the rule's names are that function's, as of the
		// call of the helper; the helper's own locals come second
		root := fc.root()
		top := fc
		for top.frameParent != nil && top.frameParent != root {
			top = top.frameParent
		}
		cur := fc.cur
		env.lookup = func(name string) (Val, bool) {
			if top.callBlock != nil {
				if v, ok := root.lookupVarBefore(name, top.callBlock, top.callSite, st); ok {
					return v, true
				}
			}
			return fc.lookupVarBefore(name, cur, in, st)
		}
	}
	defer func() {
		if r := recover(); r != nil {
			if se, ok := r.(specErr); ok {
				panic(specErr(fmt.Sprintf("%s (in `%s`)", string(se), h.Text)))
			}
			panic(r)
		}
	}()
	if h.IsGuard {
		if h.Guard != nil {
			g := fc.evalBool(h.Guard.Expr, env)
			if h.When != nil {
				g = implies(fc.evalBool(h.When.Expr, env), g)
			}
			fc.oblig("guard", fmt.Sprintf("%s %s requires %s", h.Kind, what, h.Guard.Text), g, posOf(in))
		}
		return
	}
	// all updates are evaluated in the pre-update ghost state (simultaneous assignment)
	type upd struct {
		name string
		t    Term
	}
	var us []upd
	for _, u := range h.Updates {
		nv := fc.evalExpr(u.Expr.Expr, env)
		t := nv.S
		if ghostKind(fc.eng.ghostSort(u.Name)) == KReal {
			t = fc.vc.coerce(nv, KReal)
		}
		if h.When != nil {
			t = ite(fc.evalBool(h.When.Expr, env), t, fc.ghost(st, u.Name))
		}
		us = append(us, upd{u.Name, t})
	}
	// lemma / axiom instances speak about the state before the updates (and before the
	// instruction the hook is attached to takes effect)
	for _, u := range h.Uses {
		fc.useLemma(u, env)
	}
	for _, u := range us {
		st.Gh[u.name] = fc.vc.sc.define("gh_"+u.name, fc.eng.ghostSort(u.name), u.t)
	}
}

// storeHooks runs hooks/guards attached to stores of a struct field.
func (fc *FnCtx) storeHooks(in *ssa.Store, st *State) {
	if fa, ok := in.Addr.(*ssa.FieldAddr); ok {
		fc.fieldHooks("store", fa, []ssa.Value{fa.X, in.Val}, in, st)
	}
}

// fieldHooks runs hooks/guards of the given kind (store, load, mapwrite)
// attached to a struct field; args are bound to the hook's parameters
// (object, then stored value / map key).
func (fc *FnCtx) fieldHooks(kind string, fa *ssa.FieldAddr, args []ssa.Value, in ssa.Instruction, st *State) {
	if len(fc.eng.cs.Hooks) == 0 {
		return
	}
	st0 := fa.X.Type().Underlying().(*types.Pointer).Elem()
	name := typeName(st0) + "." + structOf(st0).Field(fa.Field).Name()
	var hooks []*Hook
	for _, h := range fc.eng.cs.Hooks {
		if h.IsGuard {
			hooks = append(hooks, h)
		}
	}
	for _, h := range fc.eng.cs.Hooks {
		if !h.IsGuard {
			hooks = append(hooks, h)
		}
	}
	for _, h := range hooks {
		if h.Kind != kind || !hookMatches(h, name) || !fc.hookActive(h) {
			continue
		}
		env := fc.root().env(st, fc.root().old)
		for i, p := range h.Params {
			if i < len(args) && p != "_" {
				env.vars[p] = fc.val(args[i])
			}
		}
		fc.applyHook(h, env, name, in, st)
	}
}

// elemStoreHooks runs hooks attached to stores into slice / array elements
// (`hook elemstore <elem type>(s, i, v)`: s the slice or array pointer indexed,
// i the index, v the stored value), before the store takes effect.
func (fc *FnCtx) elemStoreHooks(in *ssa.Store, st *State) {
	if len(fc.eng.cs.Hooks) == 0 {
		return
	}
	ia, ok := in.Addr.(*ssa.IndexAddr)
	if !ok {
		return
	}
	name := leafTypeName(in.Val.Type())
	for _, h := range fc.eng.cs.Hooks {
		if h.Kind != "elemstore" || h.Pattern != name || !fc.hookActive(h) {
			continue
		}
		env := fc.root().env(st, fc.root().old)
		args := []ssa.Value{ia.X, ia.Index, in.Val}
		for i, p := range h.Params {
			if i < len(args) && p != "_" {
				env.vars[p] = fc.val(args[i])
			}
		}
		fc.applyHook(h, env, "store into []"+name, in, st)
	}
}

// makeHooks runs `guard make <elem type>(n)` rules at a make([]T, n): this is how
// "nothing is allocated for a declared length before it was checked" is stated.
func (fc *FnCtx) makeHooks(in *ssa.MakeSlice, n Val, st *State) {
	if len(fc.eng.cs.Hooks) == 0 {
		return
	}
	et := in.Type().Underlying().(*types.Slice).Elem()
	name := leafTypeName(et)
	for _, h := range fc.eng.cs.Hooks {
		if h.Kind != "make" || h.Pattern != name || !fc.hookActive(h) {
			continue
		}
		env := fc.root().env(st, fc.root().old)
		if len(h.Params) > 0 && h.Params[0] != "_" {
			env.vars[h.Params[0]] = n
		}
		fc.applyHook(h, env, "make []"+name, in, st)
	}
}

// fieldOfLoad: the FieldAddr a value was loaded from, if it is a direct field load.
func fieldOfLoad(v ssa.Value) *ssa.FieldAddr {
	if u, ok := v.(*ssa.UnOp); ok {
		if fa, ok := u.X.(*ssa.FieldAddr); ok {
			return fa
		}
	}
	return nil
}

func (fc *FnCtx) hookGhosts(cc *ssa.CallCommon, ghost func(string)) {
	if len(fc.eng.cs.Hooks) == 0 {
		return
	}
	name := ""
	if cc.IsInvoke() {
		name = typeName(cc.Value.Type()) + "." + cc.Method.Name()
	} else if f := cc.StaticCallee(); f != nil {
		name = fc.eng.shortFn(f)
	}
	for _, h := range fc.eng.cs.Hooks {
		if (h.Kind == "call" || h.Kind == "go") && hookMatches(h, name) {
			for _, u := range h.Updates {
				ghost(u.Name)
			}
		}
	}
}

// storeHookGhosts reports ghosts updated by store hooks (for loop havoc).
func (fc *FnCtx) storeHookGhosts(in *ssa.Store, ghost func(string)) {
	fa, ok := in.Addr.(*ssa.FieldAddr)
	if !ok || len(fc.eng.cs.Hooks) == 0 {
		return
	}
	st0 := fa.X.Type().Underlying().(*types.Pointer).Elem()
	name := typeName(st0) + "." + structOf(st0).Field(fa.Field).Name()
	for _, h := range fc.eng.cs.Hooks {
		if h.Kind == "store" && hookMatches(h, name) {
			for _, u := range h.Updates {
				ghost(u.Name)
			}
		}
	}
}
