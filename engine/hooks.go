package main

import (
	"fmt"
	"strings"

	"golang.org/x/tools/go/ssa"
)

func hookMatches(h *Hook, name string) bool {
	if h.Pattern == name {
		return true
	}
	return strings.HasSuffix(name, "."+h.Pattern) || strings.HasSuffix(name, ")."+h.Pattern)
}

// runHooks applies ghost updates and guard obligations attached to call sites.
func (fc *FnCtx) runHooks(ci calleeInfo, in ssa.Instruction, st *State, phase string) {
	if len(fc.eng.cs.Hooks) == 0 {
		return
	}
	for _, h := range fc.eng.cs.Hooks {
		if !hookMatches(h, ci.name) {
			continue
		}
		env := fc.calleeEnv(ci, st, st)
		for i, p := range h.Params {
			if i < len(ci.args) && p != "_" {
				env.vars[p] = ci.args[i]
			}
		}
		// names of the enclosing function are visible to guards
		for k, v := range fc.root().params {
			if _, ok := env.vars[k]; !ok {
				env.vars[k] = v
			}
		}
		if h.Guard != nil && (phase == "before" || phase == "go") {
			fc.oblig("guard", fmt.Sprintf("%s requires %s", ci.name, h.Guard.Text), fc.evalBool(h.Guard.Expr, env), posOf(in))
		}
		if len(h.Updates) > 0 && (phase == "before" || phase == "go") {
			for _, u := range h.Updates {
				nv := fc.evalExpr(u.Expr.Expr, env)
				t := nv.S
				if h.When != nil {
					t = ite(fc.evalBool(h.When.Expr, env), t, fc.ghost(st, u.Name))
				}
				st.Gh[u.Name] = fc.vc.sc.define("gh_"+u.Name, fc.eng.ghostSort(u.Name), t)
			}
		}
	}
}

func (fc *FnCtx) hookGhosts(cc *ssa.CallCommon, ghost func(string)) {
	if len(fc.eng.cs.Hooks) == 0 {
		return
	}
	name := ""
	if cc.IsInvoke() {
		name = typeName(cc.Value.Type()) + "." + cc.Method.Name()
	} else if f := cc.StaticCallee(); f != nil {
		name = fc.eng.shortFn(f)
	}
	for _, h := range fc.eng.cs.Hooks {
		if hookMatches(h, name) {
			for _, u := range h.Updates {
				ghost(u.Name)
			}
		}
	}
}
