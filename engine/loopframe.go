package main

import (
	"fmt"
	"go/types"
	"sort"
	"strings"

	"golang.org/x/tools/go/ssa"
)

// wclass classifies one possible write inside a loop body.
type wclass struct {
	kind int  // wExact, wRow, wFresh, wWhole
	t    Term // exact: object ref / backing base; row: backing base of a slice of structs
}

const (
	wExact = iota
	wRow
	wFresh
	wWhole
)

func (fc *FnCtx) inLoop(v ssa.Value, li *loopInfo) bool {
	if in, ok := v.(ssa.Instruction); ok {
		return li.body[in.Block()]
	}
	return false
}

// classifyObj classifies the object a pointer-to-object value designates.
func (fc *FnCtx) classifyObj(x ssa.Value, li *loopInfo) wclass {
	if !fc.inLoop(x, li) {
		if v, ok := fc.vals[x]; ok && v.S != "" && v.Loc == nil {
			return wclass{wExact, v.S}
		}
		if _, isParam := x.(*ssa.Parameter); isParam {
			return wclass{wExact, fc.val(x).S}
		}
		if g, ok := x.(*ssa.Global); ok {
			return wclass{wExact, fc.val(g).S}
		}
		return wclass{kind: wWhole}
	}
	switch a := x.(type) {
	case *ssa.Alloc:
		return wclass{kind: wFresh}
	case *ssa.IndexAddr:
		// element of a slice/array of objects
		if !fc.inLoop(a.X, li) {
			if v, ok := fc.vals[a.X]; ok {
				if v.K == KSlice {
					return wclass{wRow, v.Sl.Base}
				}
				if v.K == KPtr && v.S != "" {
					return wclass{wRow, v.S}
				}
			}
			return wclass{kind: wWhole}
		}
		switch a.X.(type) {
		case *ssa.MakeSlice, *ssa.Alloc:
			return wclass{kind: wFresh}
		}
	case *ssa.FieldAddr:
		// nested by-value struct: its ref is a function of the owner's ref
		c := fc.classifyObj(a.X, li)
		if c.kind == wExact {
			st0 := a.X.Type().Underlying().(*types.Pointer).Elem()
			fp := fc.vc.fieldPtr(c.t, st0, a.Field)
			if fp.Loc == nil {
				return wclass{wExact, fp.S}
			}
		}
		if c.kind == wFresh {
			return c
		}
	}
	return wclass{kind: wWhole}
}

// classifyStore classifies a store through addr (first index of the target region).
func (fc *FnCtx) classifyStore(addr ssa.Value, li *loopInfo) wclass {
	et := addr.Type().Underlying().(*types.Pointer).Elem()
	if isObjectType(et) {
		return fc.classifyObj(addr, li)
	}
	if !fc.inLoop(addr, li) {
		if v, ok := fc.vals[addr]; ok && v.Loc != nil && len(v.Loc.Idx) > 0 {
			return wclass{wExact, v.Loc.Idx[0]}
		}
		if _, ok := addr.(*ssa.Global); ok {
			return wclass{kind: wWhole}
		}
		return wclass{kind: wWhole}
	}
	switch a := addr.(type) {
	case *ssa.Alloc:
		return wclass{kind: wFresh}
	case *ssa.FieldAddr:
		return fc.classifyObj(a.X, li)
	case *ssa.IndexAddr:
		if !fc.inLoop(a.X, li) {
			if v, ok := fc.vals[a.X]; ok {
				if v.K == KSlice {
					return wclass{wExact, v.Sl.Base}
				}
				if v.K == KPtr && v.S != "" {
					return wclass{wExact, v.S}
				}
			}
			return wclass{kind: wWhole}
		}
		switch a.X.(type) {
		case *ssa.MakeSlice, *ssa.Alloc:
			return wclass{kind: wFresh}
		}
	}
	return wclass{kind: wWhole}
}

// instrWrites reports the regions (and ghosts) an instruction in a loop body may write.
func (eng *Engine) instrWrites(fc *FnCtx, in ssa.Instruction, li *loopInfo, region func(string, wclass), ghost func(string)) {
	whole := wclass{kind: wWhole}
	switch in := in.(type) {
	case *ssa.Store:
		fc.storeHookGhosts(in, ghost)
		c := fc.classifyStore(in.Addr, li)
		if isObjectType(in.Val.Type()) && hasNestedObjects(in.Val.Type()) && c.kind == wExact {
			c = whole
		}
		for _, n := range fc.storeRegionNames(in.Addr, in.Val.Type()) {
			fc.ensureRegion(n, in.Addr, in.Val.Type())
			region(n, c)
		}
	case *ssa.MapUpdate:
		for _, n := range fc.mapRegionNames(in.Map.Type()) {
			region(n, fc.mapClass(in.Map, li))
		}
	case *ssa.Next:
		if !in.IsString {
			if r, ok := in.Iter.(*ssa.Range); ok {
				if mt, ok := r.X.Type().Underlying().(*types.Map); ok {
					fc.mapRegionNames(r.X.Type())
					name := "iter<" + mapName(mt) + ">.visited"
					fc.regDecl(name, 1, "(Array "+fc.keySort(mt)+" Bool)")
					c := whole
					if !fc.inLoop(r, li) {
						if v, ok := fc.vals[r]; ok {
							c = wclass{wExact, v.S}
						}
					}
					region(name, c)
				}
			}
		}
	case *ssa.Range:
		if mt, ok := in.X.Type().Underlying().(*types.Map); ok {
			fc.mapRegionNames(in.X.Type())
			name := "iter<" + mapName(mt) + ">.visited"
			fc.regDecl(name, 1, "(Array "+fc.keySort(mt)+" Bool)")
			region(name, wclass{kind: wFresh})
		}
	case *ssa.MakeMap:
		for _, n := range fc.mapRegionNames(in.Type()) {
			region(n, wclass{kind: wFresh})
		}
	case *ssa.Alloc:
		et := in.Type().(*types.Pointer).Elem()
		for _, n := range fc.storeRegionNames(in, et) {
			fc.ensureRegion(n, in, et)
			region(n, wclass{kind: wFresh})
		}
	case *ssa.MakeSlice:
		et := in.Type().Underlying().(*types.Slice).Elem()
		if !isObjectType(et) {
			for _, lf := range cellLeaves(et) {
				n := "elem<" + leafTypeName(et) + ">" + lf.suffix
				fc.regDecl(n, 2, leafSort(lf.kind))
				region(n, wclass{kind: wFresh})
			}
		}
	case *ssa.Convert:
		if _, ok := in.Type().Underlying().(*types.Slice); ok {
			fc.regDecl("elem<uint8>", 2, "Int")
			region("elem<uint8>", wclass{kind: wFresh})
		}
	case *ssa.MakeInterface:
		// boxes are fresh cells
		T := in.X.Type()
		k := kindOfType(T)
		if k == KStr || k == KSlice || k == KReal || k == KStruct || k == KIface {
			func() {
				defer func() { recover() }()
				if isObjectType(T) {
					for _, n := range fc.storeRegionNames(in, T) {
						fc.ensureRegion(n, in, T)
						region(n, wclass{kind: wFresh})
					}
				} else {
					for _, lf := range cellLeaves(T) {
						n := "box<" + leafTypeName(T) + ">" + lf.suffix
						fc.regDecl(n, 1, leafSort(lf.kind))
						region(n, wclass{kind: wFresh})
					}
				}
			}()
		}
	case ssa.CallInstruction:
		cc := in.Common()
		if b, ok := cc.Value.(*ssa.Builtin); ok {
			switch b.Name() {
			case "copy":
				et := cc.Args[0].Type().Underlying().(*types.Slice).Elem()
				c := whole
				if !fc.inLoop(cc.Args[0], li) {
					if v, ok := fc.vals[cc.Args[0]]; ok && v.K == KSlice {
						c = wclass{wExact, v.Sl.Base}
					}
				} else if _, isMake := cc.Args[0].(*ssa.MakeSlice); isMake {
					c = wclass{kind: wFresh}
				}
				for _, lf := range cellLeaves(et) {
					n := "elem<" + leafTypeName(et) + ">" + lf.suffix
					fc.regDecl(n, 2, leafSort(lf.kind))
					region(n, c)
				}
			case "append":
				et := cc.Args[0].Type().Underlying().(*types.Slice).Elem()
				if !isObjectType(et) {
					for _, lf := range cellLeaves(et) {
						n := "elem<" + leafTypeName(et) + ">" + lf.suffix
						fc.regDecl(n, 2, leafSort(lf.kind))
						region(n, wclass{kind: wFresh})
					}
				} else if su := structOf(et); su != nil {
					// the fields of the elements of the fresh backing object
					for i := 0; i < su.NumFields(); i++ {
						if isObjectType(su.Field(i).Type()) {
							continue
						}
						for _, lf := range cellLeaves(su.Field(i).Type()) {
							n := typeName(et) + "." + su.Field(i).Name() + lf.suffix
							fc.regDecl(n, 1, leafSort(lf.kind))
							region(n, wclass{kind: wFresh})
						}
					}
				}
			case "delete":
				for _, n := range fc.mapRegionNames(cc.Args[0].Type()) {
					region(n, fc.mapClass(cc.Args[0], li))
				}
			}
			return
		}
		fc.hookGhosts(cc, ghost)
		if _, isGo := in.(*ssa.Go); isGo {
			return
		}
		var con *Contract
		var callee *ssa.Function
		if cc.IsInvoke() {
			con = eng.cs.Funcs["iface:"+typeName(cc.Value.Type())+"."+cc.Method.Name()]
		} else if f := cc.StaticCallee(); f != nil {
			con = eng.contractFor(f)
			callee = f
		} else if u, ok := cc.Value.(*ssa.UnOp); ok {
			if fa, ok := u.X.(*ssa.FieldAddr); ok {
				st0 := fa.X.Type().Underlying().(*types.Pointer).Elem()
				con = eng.cs.Funcs["fnfield:"+typeName(st0)+"."+structOf(st0).Field(fa.Field).Name()]
			}
		}
		if con == nil {
			if callee != nil && eng.inlinable(callee) {
				// inlined helper: its own writes count (coarsely)
				for _, b := range callee.Blocks {
					for _, i2 := range b.Instrs {
						switch i2.(type) {
						case *ssa.Store, *ssa.MapUpdate, ssa.CallInstruction, *ssa.Alloc, *ssa.MakeSlice, *ssa.MakeMap, *ssa.Convert, *ssa.MakeInterface:
							sub := &loopInfo{header: li.header, body: map[*ssa.BasicBlock]bool{}}
							for _, cb := range callee.Blocks {
								sub.body[cb] = true
							}
							eng.instrWrites(fc, i2, sub, func(n string, c wclass) {
								if c.kind != wFresh {
									c = whole
								}
								region(n, c)
							}, ghost)
						}
					}
				}
				return
			}
			if callee != nil && callee.Pkg != nil && strings.HasPrefix(callee.Pkg.Pkg.Path(), "github.com/apernet/hysteria") {
				// a repository function without a contract may write anything (see unknownCall)
				for n := range eng.regions {
					region(n, whole)
				}
				for g := range eng.cs.Ghosts {
					ghost(g)
				}
				fc.loopAny = true
				return
			}
			// unknown callee: byte slices passed may be overwritten
			for _, a := range cc.Args {
				if s, ok := a.Type().Underlying().(*types.Slice); ok && !isObjectType(s.Elem()) {
					c := whole
					if !fc.inLoop(a, li) {
						if v, ok := fc.vals[a]; ok && v.K == KSlice {
							c = wclass{wExact, v.Sl.Base}
						}
					}
					for _, lf := range cellLeaves(s.Elem()) {
						n := "elem<" + leafTypeName(s.Elem()) + ">" + lf.suffix
						fc.regDecl(n, 2, leafSort(lf.kind))
						region(n, c)
					}
				}
			}
			return
		}
		if len(con.Modifies) == 0 {
			return
		}
		// evaluate the callee's frame with placeholder arguments to learn region names
		ci := calleeInfo{sig: cc.Signature(), con: con, fn: callee}
		allOutside := true
		var args []ssa.Value
		if cc.IsInvoke() {
			args = append(args, cc.Value)
			ci.isIface = true
		} else if callee == nil {
			if u, ok := cc.Value.(*ssa.UnOp); ok {
				if fa, ok := u.X.(*ssa.FieldAddr); ok {
					args = append(args, fa.X)
					ci.isIface = true
				}
			}
		}
		args = append(args, cc.Args...)
		for _, a := range args {
			if v, ok := fc.vals[a]; ok && !fc.inLoop(a, li) {
				ci.args = append(ci.args, v)
			} else if _, isConst := a.(*ssa.Const); isConst {
				ci.args = append(ci.args, fc.val(a))
			} else {
				allOutside = false
				ph := fc.freshVal("ph", a.Type())
				ci.args = append(ci.args, ph)
			}
		}
		env := fc.calleeEnv(ci, fc.vc.st, fc.vc.st)
		for _, m := range con.Modifies {
			for _, t := range fc.evalTargets(m.Expr, env) {
				switch {
				case t.Any:
					fc.loopAny = true
					for n := range eng.regions {
						region(n, whole)
					}
					for g := range eng.cs.Ghosts {
						ghost(g)
					}
				case t.Ghost != "":
					ghost(t.Ghost)
				case t.Whole || !allOutside || len(t.Idx) == 0:
					region(t.Region, whole)
				default:
					region(t.Region, wclass{wExact, t.Idx[0]})
				}
			}
		}
	}
}

func (fc *FnCtx) mapClass(m ssa.Value, li *loopInfo) wclass {
	if !fc.inLoop(m, li) {
		if v, ok := fc.vals[m]; ok && v.S != "" {
			return wclass{wExact, v.S}
		}
	}
	if _, ok := m.(*ssa.MakeMap); ok {
		return wclass{kind: wFresh}
	}
	return wclass{kind: wWhole}
}

// havocLoopRegions replaces every region that may be written in the loop by a
// fresh version constrained by a frame fact: objects that existed before the
// loop and are not among the loop's write targets keep their values.
func (fc *FnCtx) havocLoopRegions(li *loopInfo, st *State) {
	vc := fc.vc
	classes := map[string][]wclass{}
	ghosts := map[string]bool{}
	fc.loopAny = false
	defer func() {
		if fc.loopAny {
			vc.nextEpoch++
			st.Epoch = vc.nextEpoch
		}
	}()
	var blocks []*ssa.BasicBlock
	for b := range li.body {
		blocks = append(blocks, b)
	}
	sort.Slice(blocks, func(i, j int) bool { return blocks[i].Index < blocks[j].Index })
	for _, b := range blocks {
		for _, in := range b.Instrs {
			fc.eng.instrWrites(fc, in, li, func(region string, c wclass) {
				for _, o := range classes[region] {
					if o == c {
						return
					}
				}
				classes[region] = append(classes[region], c)
			}, func(g string) { ghosts[g] = true })
		}
	}
	var names []string
	for n := range classes {
		names = append(names, n)
	}
	sort.Strings(names)
	naHead := st.NA
	for _, n := range names {
		ri, ok := vc.eng.regions[n]
		if !ok {
			continue
		}
		nidx, leaf := ri.nidx, ri.leaf
		cur := vc.region(st, n, nidx, leaf)
		whole, onlyExact := false, true
		for _, c := range classes[n] {
			if c.kind == wWhole {
				whole = true
			}
			if c.kind != wExact {
				onlyExact = false
			}
		}
		if whole || nidx == 0 {
			st.Heap[n] = vc.sc.fresh(n+"@", arraySort(nidx, leaf))
			vc.typeInv(n, st.Heap[n], nidx)
			continue
		}
		if onlyExact {
			t := cur
			for _, c := range classes[n] {
				hv := vc.sc.fresh("hv", arraySort(nidx-1, leaf))
				vc.typeInv(n, hv, nidx-1)
				t = app("store", t, c.t, hv)
			}
			nm := vc.sc.fresh(n+"@", arraySort(nidx, leaf))
			vc.sc.assert(eq(nm, t))
			st.Heap[n] = nm
			continue
		}
		nm := vc.sc.fresh(n+"@", arraySort(nidx, leaf))
		conds := []Term{app("<", app("root", "r"), naHead)}
		for _, c := range classes[n] {
			switch c.kind {
			case wExact:
				conds = append(conds, not(eq("r", c.t)))
			case wRow:
				conds = append(conds, not(eq(app("root", "r"), app("root", c.t))))
			}
		}
		vc.sc.assert(fmt.Sprintf("(forall ((r Int)) (! (=> %s (= (select %s r) (select %s r))) :pattern ((select %s r))))", and(conds...), nm, cur, nm))
		st.Heap[n] = nm
		vc.typeInv(n, nm, nidx)
	}
	var gs []string
	for g := range ghosts {
		gs = append(gs, g)
	}
	sort.Strings(gs)
	for _, g := range gs {
		st.Gh[g] = vc.sc.fresh("gh_"+g, fc.eng.ghostSort(g))
	}
}
