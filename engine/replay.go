package main

// tryReplay turns a model of the failed obligation into inputs for the real
// code where possible (see replay_gen.go); rep is the replay file content being built.
func (eng *Engine) tryReplay(prop string, o *Obligation, rep map[string]any) {
	if o.VC == nil || o.Result == "unsat" {
		return
	}
	defer func() {
		if r := recover(); r != nil {
			rep["replay_skipped"] = "replayer error: " + fmtAny(r)
		}
	}()
	eng.replayModel(prop, o, rep)
}
