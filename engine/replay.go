package main

// tryReplay turns a sat model into inputs for the real code where possible
// (see replay_gen.go); rep is the replay file content being built.
func (eng *Engine) tryReplay(prop string, o *Obligation, rep map[string]any) {
	if o.Result != "sat" || o.VC == nil {
		return
	}
	eng.replayModel(prop, o, rep)
}
