package main

import (
	"sync"
	"crypto/sha1"
	"fmt"
	"go/constant"
	"go/types"
	"math/big"
	"strings"
)

type bigInt = big.Int

var one = big.NewInt(1)

// maxLen: residual assumption A-INT — no string or slice is longer than 2^61
// elements (the address space of a 64-bit process is far smaller).
const maxLen = "1099511627776" // 2^40

// VC is the per-function verification-condition builder.
type VC struct {
	eng        *Engine
	sc         *Script
	st         *State // current state while executing
	subs       map[string]bool
	strs       map[string]Term
	tags       map[string]int
	preludeLen int
	axLines    map[int]axLine
	na0        Term
	recDefs    map[string]*recDef
	regDefs    map[Term]Term // region version -> the term it was defined as
	nextEpoch  int
}

func newVC(eng *Engine) *VC {
	vc := &VC{eng: eng, sc: newScript(), subs: map[string]bool{}, strs: map[string]Term{}}
	for _, l := range strings.Split(prelude, "\n") {
		if l != "" {
			vc.sc.raw(l)
		}
	}
	vc.preludeLen = vc.sc.pos()
	return vc
}

type regionInfo struct {
	nidx int
	leaf string
}

// region returns the current term of a region in st, declaring its initial
// version on first use.
func (vc *VC) region(st *State, name string, nidx int, leaf string) Term {
	if t, ok := st.Heap[name]; ok {
		return t
	}
	ri, ok := vc.eng.regions[name]
	if !ok {
		ri = regionInfo{nidx, leaf}
		vc.eng.regions[name] = ri
	} else if ri.nidx != nidx || ri.leaf != leaf {
		panic(fmt.Sprintf("region %s used with sorts (%d,%s) and (%d,%s)", name, ri.nidx, ri.leaf, nidx, leaf))
	}
	if st.Track != nil {
		return st.Track.formal(name)
	}
	if st.Epoch > 0 {
		// first mention after a whole-heap havoc: an unknown version (the same one for every
		// state that passed that havoc), not the entry version
		en := fmt.Sprintf("%s@ep%d", name, st.Epoch)
		first := !vc.sc.declared[sym(en)]
		t := vc.sc.declare(en, arraySort(nidx, leaf))
		if first {
			vc.typeInv(name, t, nidx)
		}
		return t
	}
	t := vc.sc.declare(name+"@0", arraySort(nidx, leaf))
	// heap well-formedness at function entry: every reference stored in the
	// pre-state heap designates an object allocated before the function started
	if rk, isRef := vc.eng.regionRef[name]; isRef && vc.na0 != "" && !vc.subs["wf:"+name] {
		vc.subs["wf:"+name] = true
		// the cell term and its binders, by region shape
		binders, cell := "(r Int)", fmt.Sprintf("(select %s r)", t)
		if i := strings.LastIndex(rk, "|"); i > 0 && strings.HasPrefix(rk, "map:") {
			binders, cell = fmt.Sprintf("(r Int) (k %s)", rk[4:i]), fmt.Sprintf("(select (select %s r) k)", t)
			rk = rk[i+1:]
		} else if nidx == 2 {
			binders, cell = "(r Int) (i Int)", fmt.Sprintf("(select (select %s r) i)", t)
		} else if nidx == 0 {
			binders, cell = "", t
		}
		var fact Term
		switch {
		case rk == "ref":
			fact = fmt.Sprintf("(< (root %s) %s)", cell, vc.na0)
		case rk == "len":
			fact = fmt.Sprintf("(and (<= 0 %s) (<= %s %s))", cell, cell, maxLen)
		case strings.HasPrefix(rk, "range "):
			f := strings.SplitN(rk[6:], "..", 2)
			fact = fmt.Sprintf("(and (<= %s %s) (<= %s %s))", f[0], cell, cell, f[1])
		}
		if fact != "" {
			if binders == "" {
				vc.sc.assert(fact)
			} else {
				vc.sc.assert(fmt.Sprintf("(forall (%s) (! %s :pattern (%s)))", binders, fact, cell))
			}
		}
	}
	return t
}

// typeInv states, for a freshly introduced (unknown) version t of region name, what Go's
// types guarantee of every value stored there whatever happened before: sized integers are in
// range, slice lengths / capacities / offsets are non-negative. depth is how many of the
// region's indices are still to be applied to t (nidx for a whole region, nidx-1 for one row, 0 for a cell).
func (vc *VC) typeInv(name string, t Term, depth int) {
	rk, ok := vc.eng.regionRef[name]
	if !ok {
		return
	}
	binders, cell := "", t
	if i := strings.LastIndex(rk, "|"); i > 0 && strings.HasPrefix(rk, "map:") {
		if depth != 1 {
			return
		}
		binders, cell = fmt.Sprintf("(r Int) (k %s)", rk[4:i]), fmt.Sprintf("(select (select %s r) k)", t)
		rk = rk[i+1:]
	} else {
		switch depth {
		case 1:
			binders, cell = "(r Int)", fmt.Sprintf("(select %s r)", t)
		case 2:
			binders, cell = "(r Int) (i Int)", fmt.Sprintf("(select (select %s r) i)", t)
		}
	}
	var fact Term
	switch {
	case rk == "len":
		fact = fmt.Sprintf("(and (<= 0 %s) (<= %s %s))", cell, cell, maxLen)
	case strings.HasPrefix(rk, "range "):
		f := strings.SplitN(rk[6:], "..", 2)
		fact = fmt.Sprintf("(and (<= %s %s) (<= %s %s))", f[0], cell, cell, f[1])
	default:
		return
	}
	if binders == "" {
		vc.sc.assert(fact)
	} else {
		vc.sc.assert(fmt.Sprintf("(forall (%s) (! %s :pattern (%s)))", binders, fact, cell))
	}
}

// noteRegionType records, per leaf region under prefix, what every value
// stored there satisfies by construction (a reference to an allocated object,
// a slice length/capacity/offset, a sized integer's range) so that region()
// can state this well-formedness for the pre-state heap. mapKey != "" marks a
// map value region keyed by that sort.
func (eng *Engine) noteRegionType(prefix string, T types.Type, mapKey string) {
	mark := func(name, what string) {
		if _, ok := eng.regionRef[name]; ok {
			return
		}
		if mapKey != "" {
			what = "map:" + mapKey + "|" + what
		}
		eng.regionRef[name] = what
	}
	switch u := T.Underlying().(type) {
	case *types.Pointer, *types.Map, *types.Chan:
		mark(prefix, "ref")
	case *types.Slice:
		mark(prefix+".base", "ref")
		mark(prefix+".off", "len")
		mark(prefix+".len", "len")
		mark(prefix+".cap", "len")
	case *types.Basic:
		if lo, hi, ok := intRange(u); ok {
			mark(prefix, "range "+lo+".."+hi)
		}
	}
}

func (vc *VC) setRegion(st *State, name string, nidx int, leaf string, t Term) {
	vc.region(st, name, nidx, leaf)
	nm := vc.sc.fresh(name+"@", arraySort(nidx, leaf))
	vc.sc.assert(eq(nm, t))
	st.Heap[name] = nm
	if vc.regDefs == nil {
		vc.regDefs = map[Term]Term{}
	}
	vc.regDefs[nm] = t
}

// rowOf returns (select reg base) with the stores that defined reg resolved
// syntactically when they hit the same base: the row of a backing array after
// `a[i] = v` is then literally (store <old row> i v), the shape lemma triggers
// such as cntA(store(a, j, v), lo, n) match without array reasoning.
func (vc *VC) rowOf(reg, base Term) Term {
	def, ok := vc.regDefs[reg]
	if ok && strings.HasPrefix(def, "(store ") {
		parts := splitSexprs(def[len("(store ") : len(def)-1])
		if len(parts) == 3 && parts[1] == base {
			inner := app("select", parts[0], base)
			return strings.ReplaceAll(parts[2], inner, vc.rowOf(parts[0], base))
		}
	}
	return app("select", reg, base)
}

func (vc *VC) regionSort(name string) (int, string) {
	ri := vc.eng.regions[name]
	// the region registry is shared by all functions of a run: a region whose sort mentions a
	// struct-key datatype declared while verifying another function needs that datatype here too
	if i := strings.Index(ri.leaf, "|Key<"); i >= 0 {
		if j := strings.Index(ri.leaf[i+1:], "|"); j >= 0 {
			key := ri.leaf[i+1 : i+1+j]
			keyDeclMu.Lock()
			decl := keySortDecls[key]
			keyDeclMu.Unlock()
			if decl != "" && !vc.subs[key] {
				vc.sc.raw(decl)
				vc.subs[key] = true
			}
		}
	}
	return ri.nidx, ri.leaf
}

var (
	keyDeclMu    sync.Mutex
	keySortDecls = map[string]string{} // "Key<pkg.T>" -> its declare-datatypes line
)

// leaves of a cell location of type T: suffix, kind
type leafSpec struct {
	suffix string
	kind   Kind
}

func cellLeaves(T types.Type) []leafSpec {
	switch kindOfType(T) {
	case KSlice:
		return []leafSpec{{".base", KInt}, {".off", KInt}, {".len", KInt}, {".cap", KInt}}
	case KIface:
		return []leafSpec{{".pl", KInt}, {".tag", KInt}}
	case KBool:
		return []leafSpec{{"", KBool}}
	case KStr:
		return []leafSpec{{"", KStr}}
	case KReal:
		return []leafSpec{{"", KReal}}
	case KFunc:
		return []leafSpec{{"", KInt}}
	}
	return []leafSpec{{"", KInt}}
}

// loadLoc reads a non-object value of type T at loc.
func (vc *VC) loadLoc(st *State, loc *Loc, T types.Type) Val {
	n := len(loc.Idx)
	get := func(suffix string, k Kind) Term {
		r := vc.region(st, loc.Prefix+suffix, n, leafSort(k))
		return sel(r, loc.Idx...)
	}
	switch k := kindOfType(T); k {
	case KSlice:
		return Val{K: KSlice, T: T, Sl: &SliceV{get(".base", KInt), get(".off", KInt), get(".len", KInt), get(".cap", KInt)}}
	case KIface:
		return Val{K: KIface, T: T, S: get(".pl", KInt), Tag: get(".tag", KInt)}
	case KPtr:
		return vc.ptrFromRef(get("", KInt), T)
	case KFunc:
		return Val{K: KFunc, T: T, S: get("", KInt)}
	case KStruct, KArr:
		panic("loadLoc on object type " + T.String())
	default:
		return Val{K: k, T: T, S: get("", k)}
	}
}

// ptrFromRef builds a pointer value of pointer type PT from a stored ref.
func (vc *VC) ptrFromRef(ref Term, PT types.Type) Val {
	pt, _ := PT.Underlying().(*types.Pointer)
	v := Val{K: KPtr, T: PT, S: ref}
	if pt != nil && !isObjectType(pt.Elem()) {
		vc.eng.noteRegionType("cell<"+leafTypeName(pt.Elem())+">", pt.Elem(), "")
		v.Loc = &Loc{Prefix: "cell<" + leafTypeName(pt.Elem()) + ">", Idx: []Term{ref}}
	}
	return v
}

func (vc *VC) storeLoc(st *State, loc *Loc, T types.Type, v Val) {
	n := len(loc.Idx)
	put := func(suffix string, k Kind, t Term) {
		name := loc.Prefix + suffix
		r := vc.region(st, name, n, leafSort(k))
		if n == 0 {
			vc.setRegion(st, name, n, leafSort(k), t)
			return
		}
		vc.setRegion(st, name, n, leafSort(k), stor(r, loc.Idx, t))
		if n == 2 {
			// redundant ground fact: the updated row, literally as a store on the old
			// row (lets triggers of the form f(store(a, j, v), ..) match by congruence)
			vc.sc.assert(eq(app("select", st.Heap[name], loc.Idx[0]), app("store", app("select", r, loc.Idx[0]), loc.Idx[1], t)))
		}
	}
	switch k := kindOfType(T); k {
	case KSlice:
		sl := v.Sl
		if sl == nil {
			sl = &SliceV{"0", "0", "0", "0"}
		}
		put(".base", KInt, sl.Base)
		put(".off", KInt, sl.Off)
		put(".len", KInt, sl.Len)
		put(".cap", KInt, sl.Cap)
	case KIface:
		put(".pl", KInt, v.S)
		put(".tag", KInt, v.Tag)
	case KPtr:
		if v.S == "" {
			panic(unsupported("storing an interior pointer to a scalar in memory"))
		}
		put("", KInt, v.S)
	case KFunc:
		put("", KInt, vc.funcID(v))
	case KStruct, KArr:
		panic("storeLoc on object type")
	default:
		put("", k, vc.coerce(v, k))
	}
}

func (vc *VC) coerce(v Val, k Kind) Term {
	if k == KReal && v.K == KInt {
		return toReal(v.S)
	}
	return v.S
}

func toReal(t Term) Term {
	if _, ok := new(big.Int).SetString(t, 10); ok {
		return t + ".0"
	}
	return app("to_real", t)
}

func (vc *VC) funcID(v Val) Term {
	if v.S != "" {
		return v.S
	}
	if v.Fn != nil {
		// closure identity: opaque, distinct from nil
		c := vc.sc.fresh("fn", "Int")
		vc.sc.assert(app(">", c, "0"))
		vc.eng.closures[c] = v
		return c
	}
	return "0"
}

type unsupported string

func (u unsupported) Error() string { return string(u) }

// subRef returns the Ref of the sub-object stored by value in field fi of
// struct ST at object r.
func (vc *VC) subRef(r Term, owner string, field string) Term {
	fn := "sub<" + owner + "." + field + ">"
	f := sym(fn)
	if !vc.subs[fn] {
		vc.subs[fn] = true
		inv := sym(fn + "~")
		vc.sc.declareFun(fn, []string{"Int"}, "Int")
		vc.sc.declareFun(fn+"~", []string{"Int"}, "Int")
		id := len(vc.subs)
		vc.sc.declareFun("subtag", []string{"Int"}, "Int")
		vc.sc.assert(fmt.Sprintf("(forall ((r Int)) (! (and (= (%s (%s r)) r) (< (%s r) 0) (= (subtag (%s r)) %d) (= (root (%s r)) (root r))) :pattern ((%s r))))", inv, f, f, f, id, f, f))
	}
	return app(f, r)
}

func structOf(T types.Type) *types.Struct {
	s, _ := T.Underlying().(*types.Struct)
	return s
}

// fieldPtr returns a pointer value to field i of the struct object at ref.
func (vc *VC) fieldPtr(ref Term, ST types.Type, i int) Val {
	s := structOf(ST)
	f := s.Field(i)
	owner := typeName(ST)
	pt := types.NewPointer(f.Type())
	if isObjectType(f.Type()) {
		return Val{K: KPtr, T: pt, S: vc.subRef(ref, owner, f.Name())}
	}
	vc.eng.noteRegionType(owner+"."+f.Name(), f.Type(), "")
	return Val{K: KPtr, T: pt, Loc: &Loc{Prefix: owner + "." + f.Name(), Idx: []Term{ref}}}
}

// elemPtr returns a pointer to element i (absolute index) of backing object base.
func (vc *VC) elemPtr(base, idx Term, ET types.Type) Val {
	pt := types.NewPointer(ET)
	if isObjectType(ET) {
		return Val{K: KPtr, T: pt, S: app("selem", base, idx)}
	}
	vc.eng.noteRegionType("elem<"+leafTypeName(ET)+">", ET, "")
	return Val{K: KPtr, T: pt, Loc: &Loc{Prefix: "elem<" + leafTypeName(ET) + ">", Idx: []Term{base, idx}}}
}

// load reads a value of type T through pointer p.
func (vc *VC) load(st *State, p Val, T types.Type) Val {
	if p.Loc != nil {
		return vc.loadLoc(st, p.Loc, T)
	}
	switch u := T.Underlying().(type) {
	case *types.Struct:
		v := Val{K: KStruct, T: T}
		for i := 0; i < u.NumFields(); i++ {
			v.Fs = append(v.Fs, vc.load(st, vc.fieldPtr(p.S, T, i), u.Field(i).Type()))
		}
		return v
	case *types.Array:
		k := kindOfType(u.Elem())
		if isObjectType(u.Elem()) && u.Len() <= 16 {
			// a short array of structs as a value: its elements, loaded one by one (Fs);
			// only indexing (ssa.Index) is supported on it
			v := Val{K: KArr, T: T}
			for i := int64(0); i < u.Len(); i++ {
				v.Fs = append(v.Fs, vc.load(st, vc.elemPtr(p.S, itoa(i), u.Elem()), u.Elem()))
			}
			return v
		}
		if isObjectType(u.Elem()) || k == KSlice || k == KIface {
			panic(unsupported("array value of composite elements"))
		}
		r := vc.region(st, "elem<"+leafTypeName(u.Elem())+">", 2, leafSort(k))
		return Val{K: KArr, T: T, S: app("select", r, p.S)}
	}
	panic(unsupported("load of " + T.String()))
}

func (vc *VC) store(st *State, p Val, T types.Type, v Val) {
	if p.Loc != nil {
		vc.storeLoc(st, p.Loc, T, v)
		return
	}
	switch u := T.Underlying().(type) {
	case *types.Struct:
		for i := 0; i < u.NumFields(); i++ {
			var fv Val
			if v.K == KStruct && i < len(v.Fs) {
				fv = v.Fs[i]
			} else {
				fv = vc.zero(u.Field(i).Type())
			}
			vc.store(st, vc.fieldPtr(p.S, T, i), u.Field(i).Type(), fv)
		}
		return
	case *types.Array:
		k := kindOfType(u.Elem())
		if isObjectType(u.Elem()) || k == KSlice || k == KIface {
			panic(unsupported("array store of composite elements"))
		}
		name := "elem<" + leafTypeName(u.Elem()) + ">"
		r := vc.region(st, name, 2, leafSort(k))
		vc.setRegion(st, name, 2, leafSort(k), app("store", r, p.S, v.S))
		return
	}
	panic(unsupported("store of " + T.String()))
}

func zeroLeaf(k Kind) Term {
	switch k {
	case KBool:
		return "false"
	case KStr:
		return "str_empty"
	case KReal:
		return "0.0"
	}
	return "0"
}

func (vc *VC) emptyStr() Term {
	t := vc.sc.declare("str_empty", "Str")
	if !vc.subs["str_empty"] {
		vc.subs["str_empty"] = true
		vc.sc.assert("(= (slen str_empty) 0)")
		vc.sc.assert("(forall ((s Str)) (! (=> (= (slen s) 0) (= s str_empty)) :pattern ((slen s))))")
	}
	return t
}

func (vc *VC) zero(T types.Type) Val {
	switch k := kindOfType(T); k {
	case KSlice:
		return Val{K: KSlice, T: T, Sl: &SliceV{"0", "0", "0", "0"}}
	case KIface:
		return Val{K: KIface, T: T, S: "0", Tag: "0"}
	case KStruct:
		s := structOf(T)
		v := Val{K: KStruct, T: T}
		for i := 0; i < s.NumFields(); i++ {
			v.Fs = append(v.Fs, vc.zero(s.Field(i).Type()))
		}
		return v
	case KArr:
		a := T.Underlying().(*types.Array)
		ek := kindOfType(a.Elem())
		if ek == KStr {
			vc.emptyStr()
		}
		return Val{K: KArr, T: T, S: fmt.Sprintf("((as const (Array Int %s)) %s)", leafSort(ek), zeroLeaf(ek))}
	case KPtr:
		return vc.ptrFromRef("0", T)
	case KStr:
		return Val{K: KStr, T: T, S: vc.emptyStr()}
	case KFunc:
		return Val{K: KFunc, T: T, S: "0"}
	default:
		return Val{K: k, T: T, S: zeroLeaf(k)}
	}
}

// alloc returns a fresh object ref and bumps the allocation counter.
func (vc *VC) alloc(st *State) Term {
	r := vc.sc.fresh("new", "Int")
	vc.sc.assert(and(eq(r, st.NA), eq(app("root", r), r)))
	na := vc.sc.fresh("NA", "Int")
	vc.sc.assert(eq(na, app("+", st.NA, "1")))
	st.NA = na
	return r
}

// initObject zero-initialises a freshly allocated object of type T at ref.
func (vc *VC) initObject(st *State, ref Term, T types.Type) {
	switch u := T.Underlying().(type) {
	case *types.Struct:
		for i := 0; i < u.NumFields(); i++ {
			fp := vc.fieldPtr(ref, T, i)
			ft := u.Field(i).Type()
			if isObjectType(ft) {
				vc.initObject(st, fp.S, ft)
			} else {
				vc.store(st, fp, ft, vc.zero(ft))
			}
		}
	case *types.Array:
		vc.initBacking(st, ref, u.Elem())
	default:
		p := vc.ptrFromRef(ref, types.NewPointer(T))
		vc.store(st, p, T, vc.zero(T))
	}
}

// initBacking zero-initialises a fresh backing object with elements of type ET.
func (vc *VC) initBacking(st *State, base Term, ET types.Type) {
	if s := structOf(ET); s != nil {
		owner := typeName(ET)
		for i := 0; i < s.NumFields(); i++ {
			ft := s.Field(i).Type()
			if isObjectType(ft) {
				continue // nested objects left unconstrained (sound: less information)
			}
			for _, lf := range cellLeaves(ft) {
				name := owner + "." + s.Field(i).Name() + lf.suffix
				r := vc.region(st, name, 1, leafSort(lf.kind))
				if lf.kind == KStr {
					vc.emptyStr()
				}
				vc.sc.assert(fmt.Sprintf("(forall ((i Int)) (! (= (select %s (selem %s i)) %s) :pattern ((selem %s i))))", r, base, zeroLeaf(lf.kind), base))
			}
		}
		return
	}
	if isObjectType(ET) {
		return
	}
	for _, lf := range cellLeaves(ET) {
		name := "elem<" + leafTypeName(ET) + ">" + lf.suffix
		r := vc.region(st, name, 2, leafSort(lf.kind))
		if lf.kind == KStr {
			vc.emptyStr()
		}
		vc.setRegion(st, name, 2, leafSort(lf.kind), app("store", r, base, fmt.Sprintf("((as const (Array Int %s)) %s)", leafSort(lf.kind), zeroLeaf(lf.kind))))
	}
}

// strLit returns the Str constant for a Go string literal.
func (vc *VC) strLit(s string) Term {
	if s == "" {
		return vc.emptyStr()
	}
	if t, ok := vc.strs[s]; ok {
		return t
	}
	h := sha1.Sum([]byte(s))
	clean := strings.Map(func(r rune) rune {
		if r >= 'a' && r <= 'z' || r >= 'A' && r <= 'Z' || r >= '0' && r <= '9' {
			return r
		}
		return '_'
	}, s)
	if len(clean) > 16 {
		clean = clean[:16]
	}
	t := vc.sc.declare(fmt.Sprintf("str_%s_%x", clean, h[:4]), "Str")
	vc.sc.assert(eq(app("slen", t), itoa(int64(len(s)))))
	if len(s) <= 64 {
		var fs []Term
		for i := 0; i < len(s); i++ {
			fs = append(fs, eq(app("sat", t, itoa(int64(i))), itoa(int64(s[i]))))
		}
		vc.sc.assert(and(fs...))
	}
	vc.strs[s] = t
	return t
}

// constVal converts a Go constant of type T to a value.
func (vc *VC) constVal(c constant.Value, T types.Type) Val {
	k := kindOfType(T)
	if c == nil {
		return vc.zero(T)
	}
	switch k {
	case KBool:
		if constant.BoolVal(c) {
			return boolV("true")
		}
		return boolV("false")
	case KStr:
		return Val{K: KStr, T: T, S: vc.strLit(constant.StringVal(c))}
	case KReal:
		r, _ := new(big.Rat).SetString(c.ExactString())
		if r == nil {
			f, _ := constant.Float64Val(c)
			r = new(big.Rat).SetFloat64(f)
		}
		return Val{K: KReal, T: T, S: ratTerm(r)}
	}
	if c.Kind() == constant.Float { // untyped float constant used as int
		f, _ := constant.Float64Val(c)
		return intV(bigTerm(big.NewInt(int64(f))), T)
	}
	bi, ok := new(big.Int).SetString(c.ExactString(), 10)
	if !ok {
		panic(unsupported("constant " + c.String()))
	}
	return intV(bigTerm(bi), T)
}

func ratTerm(r *big.Rat) Term {
	neg := r.Sign() < 0
	a := new(big.Rat).Abs(r)
	var t Term
	if a.IsInt() {
		t = a.Num().String() + ".0"
	} else {
		t = "(/ " + a.Num().String() + ".0 " + a.Denom().String() + ".0)"
	}
	if neg {
		return "(- " + t + ")"
	}
	return t
}

// rangeFact returns the type-range constraint for integer-typed v.
func rangeFact(v Term, T types.Type) Term {
	lo, hi, ok := intRange(T)
	if !ok {
		return "true"
	}
	return and(app("<=", lo, v), app("<=", v, hi))
}

// wellFormed returns facts that hold of any value of type T by construction.
func (vc *VC) wellFormed(v Val) Term {
	switch v.K {
	case KInt:
		if v.T != nil {
			return rangeFact(v.S, v.T)
		}
	case KSlice:
		s := v.Sl
		return and(app("<=", "0", s.Off), app("<=", "0", s.Len), app("<=", s.Len, s.Cap), app("<=", s.Cap, maxLen), app("<=", s.Off, maxLen),
			implies(eq(s.Base, "0"), and(eq(s.Cap, "0"), eq(s.Off, "0"))))
	case KStruct, KTuple:
		var fs []Term
		for _, f := range v.Fs {
			fs = append(fs, vc.wellFormed(f))
		}
		return and(fs...)
	}
	return "true"
}
