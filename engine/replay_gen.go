package main

import (
	"encoding/json"
	"fmt"
	"go/types"
	"math/big"
	"os"
	"os/exec"
	"path/filepath"
	"regexp"
	"strings"
	"time"

	"golang.org/x/tools/go/ssa"
)

// Counterexample replay.
//
// A failed obligation of a panic-freedom kind (bounds, slice, nil, div0,
// make-neg, typeassert, panic, overflow in a nowrap function whose wrapped
// value then indexes out of range, ...) claims "there is an input on which the
// real function panics". The replayer asks the solver for the values of the
// function's parameters in its model (quantifier-free relaxation of the query
// when the full query was not decided), writes an in-package Go test that
// builds exactly those inputs, calls the real function under recover, and runs
// it with `go test -overlay` (nothing is written into /repo). The violation is
// reported as replayed only if the real code panics.

var panicKinds = map[string]bool{"bounds": true, "slice": true, "nil": true, "div0": true, "make-neg": true, "typeassert": true, "panic": true, "overflow": true, "pre": true}

const replayMaxLen = 1 << 16

type rvalue struct {
	expr  string   // Go expression building the value (may reference earlier setup variables)
	setup []string // statements to run before
}

type replayBuilder struct {
	eng     *Engine
	fc      *FnCtx
	o       *Obligation
	file    string // query file without the trailing get-model
	nvar    int
	solver  string
	imports map[string]bool
}

func (rb *replayBuilder) fresh() string {
	rb.nvar++
	return fmt.Sprintf("v%d", rb.nvar)
}

// values evaluates SMT terms in the model of the (relaxed) query.
func (rb *replayBuilder) values(terms []Term) (map[Term]string, error) {
	out := map[Term]string{}
	if len(terms) == 0 {
		return out, nil
	}
	q := rb.o.queryRelaxed() + "(check-sat)\n"
	for _, t := range terms {
		q += "(get-value (" + t + "))\n"
	}
	f := rb.file + ".vals.smt2"
	os.WriteFile(f, []byte(q), 0o644)
	defer os.Remove(f)
	cmd := exec.Command("z3-new", "-T:20", f)
	b, _ := cmd.CombinedOutput()
	lines := strings.Split(strings.TrimSpace(string(b)), "\n")
	if len(lines) == 0 || strings.TrimSpace(lines[0]) != "sat" {
		return nil, fmt.Errorf("relaxed query not sat: %s", firstLine(string(b)))
	}
	text := strings.Join(lines[1:], "\n")
	// each answer is ((term value)); answers come in order
	answers := splitSexprs(text)
	if len(answers) < len(terms) {
		return nil, fmt.Errorf("solver returned %d values for %d terms", len(answers), len(terms))
	}
	for i, t := range terms {
		a := strings.TrimSpace(answers[i])
		// strip the outer (( and ))
		a = strings.TrimSuffix(strings.TrimPrefix(a, "(("), "))")
		// the value is what follows the term text; terms may be printed differently, so take the last s-expression
		parts := splitSexprs(a)
		if len(parts) == 0 {
			return nil, fmt.Errorf("cannot parse value for %s", t)
		}
		out[t] = strings.TrimSpace(parts[len(parts)-1])
	}
	return out, nil
}

func firstLine(s string) string {
	if i := strings.Index(s, "\n"); i >= 0 {
		return s[:i]
	}
	return s
}

// splitSexprs splits a string into top-level s-expressions / atoms.
func splitSexprs(s string) []string {
	var out []string
	depth, start := 0, -1
	inq := false
	for i := 0; i < len(s); i++ {
		c := s[i]
		if c == '|' {
			inq = !inq
			if start < 0 {
				start = i
			}
			continue
		}
		if inq {
			continue
		}
		switch {
		case c == '(':
			if depth == 0 && start < 0 {
				start = i
			}
			depth++
		case c == ')':
			depth--
			if depth == 0 && start >= 0 {
				out = append(out, s[start:i+1])
				start = -1
			}
		case c == ' ' || c == '\n' || c == '\t':
			if depth == 0 && start >= 0 {
				out = append(out, s[start:i])
				start = -1
			}
		default:
			if start < 0 {
				start = i
			}
		}
	}
	if start >= 0 {
		out = append(out, s[start:])
	}
	return out
}

var negRe = regexp.MustCompile(`^\(-\s*([0-9]+)\)$`)

func smtInt(v string) (*big.Int, bool) {
	v = strings.TrimSpace(v)
	if m := negRe.FindStringSubmatch(v); m != nil {
		b, ok := new(big.Int).SetString(m[1], 10)
		if ok {
			b.Neg(b)
		}
		return b, ok
	}
	return new(big.Int).SetString(v, 10)
}

func (rb *replayBuilder) intOf(t Term) (*big.Int, error) {
	m, err := rb.values([]Term{t})
	if err != nil {
		return nil, err
	}
	b, ok := smtInt(m[t])
	if !ok {
		return nil, fmt.Errorf("non-integer model value %q for %s", m[t], t)
	}
	return b, nil
}

func (rb *replayBuilder) intsOf(ts []Term) ([]*big.Int, error) {
	m, err := rb.values(ts)
	if err != nil {
		return nil, err
	}
	out := make([]*big.Int, len(ts))
	for i, t := range ts {
		b, ok := smtInt(m[t])
		if !ok {
			return nil, fmt.Errorf("non-integer model value %q for %s", m[t], t)
		}
		out[i] = b
	}
	return out, nil
}

func byteLit(bs []*big.Int) string {
	var sb strings.Builder
	sb.WriteString("[]byte{")
	for i, b := range bs {
		if i > 0 {
			sb.WriteString(", ")
		}
		fmt.Fprintf(&sb, "%d", new(big.Int).And(b, big.NewInt(255)).Int64())
	}
	sb.WriteString("}")
	return sb.String()
}

func (rb *replayBuilder) qual(T types.Type) string {
	pkg := rb.fc.fn.Pkg
	if pkg == nil && rb.fc.fn.Parent() != nil {
		pkg = rb.fc.fn.Parent().Pkg
	}
	return types.TypeString(T, func(p *types.Package) string {
		if pkg != nil && p == pkg.Pkg {
			return ""
		}
		if rb.imports == nil {
			rb.imports = map[string]bool{}
		}
		rb.imports[p.Path()] = true
		return p.Name()
	})
}

// build returns Go source for a value equal to v (as seen in the pre-state) in the model.
func (rb *replayBuilder) build(v Val, T types.Type, depth int) (string, []string, error) {
	if depth > 4 {
		return "", nil, fmt.Errorf("value nested too deeply")
	}
	st := rb.fc.old
	vc := rb.fc.vc
	switch u := T.Underlying().(type) {
	case *types.Basic:
		switch {
		case u.Info()&types.IsBoolean != 0:
			m, err := rb.values([]Term{v.S})
			if err != nil {
				return "", nil, err
			}
			return fmt.Sprintf("%s(%s)", rb.qual(T), m[v.S]), nil, nil
		case u.Info()&types.IsInteger != 0:
			b, err := rb.intOf(v.S)
			if err != nil {
				return "", nil, err
			}
			return fmt.Sprintf("%s(%s)", rb.qual(T), b.String()), nil, nil
		case u.Info()&types.IsString != 0:
			n, err := rb.intOf(app("slen", v.S))
			if err != nil {
				return "", nil, err
			}
			if n.Sign() < 0 || n.Cmp(big.NewInt(replayMaxLen)) > 0 {
				return "", nil, fmt.Errorf("model string length %s outside replayable range", n)
			}
			var ts []Term
			for i := int64(0); i < n.Int64(); i++ {
				ts = append(ts, app("sat", v.S, itoa(i)))
			}
			bs, err := rb.intsOf(ts)
			if err != nil {
				return "", nil, err
			}
			return fmt.Sprintf("%s(%s)", rb.qual(T), byteLit(bs)), nil, nil
		}
	case *types.Slice:
		eb, ok := u.Elem().Underlying().(*types.Basic)
		if !ok || eb.Kind() != types.Uint8 {
			return "", nil, fmt.Errorf("slice of %s not replayable", u.Elem())
		}
		lc, err := rb.intsOf([]Term{v.Sl.Len, v.Sl.Cap, v.Sl.Base})
		if err != nil {
			return "", nil, err
		}
		n, c := lc[0], lc[1]
		if lc[2].Sign() == 0 {
			return fmt.Sprintf("%s(nil)", rb.qual(T)), nil, nil
		}
		if n.Sign() < 0 || c.Cmp(big.NewInt(replayMaxLen)) > 0 || n.Cmp(c) > 0 {
			return "", nil, fmt.Errorf("model slice len/cap %s/%s outside replayable range", n, c)
		}
		reg := sym("elem<uint8>@0")
		if !vc.sc.declared[reg] {
			// contents never read: any bytes do
			return fmt.Sprintf("make(%s, %d, %d)", rb.qual(T), n.Int64(), c.Int64()), nil, nil
		}
		var ts []Term
		for i := int64(0); i < n.Int64(); i++ {
			ts = append(ts, sel(reg, v.Sl.Base, plus(v.Sl.Off, itoa(i))))
		}
		bs, err := rb.intsOf(ts)
		if err != nil {
			return "", nil, err
		}
		name := rb.fresh()
		setup := []string{fmt.Sprintf("%s := make([]byte, %d, %d)", name, n.Int64(), c.Int64()), fmt.Sprintf("copy(%s, %s)", name, byteLit(bs))}
		return fmt.Sprintf("%s(%s)", rb.qual(T), name), setup, nil
	case *types.Pointer:
		if v.S == "" {
			return "", nil, fmt.Errorf("interior pointer parameter not replayable")
		}
		isNil, err := rb.intOf(v.S)
		if err != nil {
			return "", nil, err
		}
		if isNil.Sign() == 0 {
			return fmt.Sprintf("(%s)(nil)", rb.qual(T)), nil, nil
		}
		s := structOf(u.Elem())
		if s == nil {
			return "", nil, fmt.Errorf("pointer to %s not replayable", u.Elem())
		}
		name := rb.fresh()
		setup := []string{fmt.Sprintf("%s := new(%s)", name, rb.qual(u.Elem()))}
		for i := 0; i < s.NumFields(); i++ {
			f := s.Field(i)
			fp := vc.fieldPtr(v.S, u.Elem(), i)
			if fp.Loc == nil {
				// nested struct by value: only if it has replayable fields; otherwise leave zero
				continue
			}
			// only fields the VC actually read matter: undeclared regions are skipped
			declared := false
			for _, lf := range cellLeaves(f.Type()) {
				if vc.sc.declared[sym(fp.Loc.Prefix+lf.suffix+"@0")] {
					declared = true
				}
			}
			if !declared {
				continue
			}
			fv := vc.loadLocAt0(fp.Loc, f.Type())
			e, su, err := rb.build(fv, f.Type(), depth+1)
			if err != nil {
				// fields of function / interface / map type stay zero
				continue
			}
			setup = append(setup, su...)
			setup = append(setup, fmt.Sprintf("%s.%s = %s", name, f.Name(), e))
		}
		_ = st
		return name, setup, nil
	case *types.Struct:
		name := rb.fresh()
		setup := []string{fmt.Sprintf("var %s %s", name, rb.qual(T))}
		for i := 0; i < u.NumFields(); i++ {
			if i >= len(v.Fs) {
				break
			}
			e, su, err := rb.build(v.Fs[i], u.Field(i).Type(), depth+1)
			if err != nil {
				continue
			}
			setup = append(setup, su...)
			setup = append(setup, fmt.Sprintf("%s.%s = %s", name, u.Field(i).Name(), e))
		}
		return name, setup, nil
	case *types.Interface:
		// byte sources: an in-memory reader over the model's remaining bytes
		hasRead := false
		for i := 0; i < u.NumMethods(); i++ {
			if u.Method(i).Name() == "Read" || u.Method(i).Name() == "ReadByte" {
				hasRead = true
			}
		}
		if !hasRead {
			return "", nil, fmt.Errorf("interface parameter %s not replayable", T)
		}
		for _, g := range []string{"ghost:rdata@0", "ghost:rlen@0", "ghost:rpos@0"} {
			if !vc.sc.declared[sym(g)] {
				return "bytes.NewReader(nil)", nil, nil
			}
		}
		vc.sc.declareFun("src", []string{"Int"}, "Int")
		s := app("src", v.S)
		lp, err := rb.intsOf([]Term{sel(sym("ghost:rlen@0"), s), sel(sym("ghost:rpos@0"), s)})
		if err != nil {
			return "", nil, err
		}
		n := new(big.Int).Sub(lp[0], lp[1])
		if n.Sign() < 0 || n.Cmp(big.NewInt(replayMaxLen)) > 0 {
			return "", nil, fmt.Errorf("model stream length %s outside replayable range", n)
		}
		var ts []Term
		for i := int64(0); i < n.Int64(); i++ {
			ts = append(ts, sel(sym("ghost:rdata@0"), s, app("+", sel(sym("ghost:rpos@0"), s), itoa(i))))
		}
		bs, err := rb.intsOf(ts)
		if err != nil {
			return "", nil, err
		}
		return fmt.Sprintf("bytes.NewReader(%s)", byteLit(bs)), nil, nil
	}
	return "", nil, fmt.Errorf("parameter of type %s not replayable", T)
}

// loadLocAt0 reads a location from the initial heap versions.
func (vc *VC) loadLocAt0(loc *Loc, T types.Type) Val {
	st := &State{Heap: map[string]Term{}, Gh: map[string]Term{}}
	return vc.loadLoc(st, loc, T)
}

// queryRelaxed: the obligation's query without quantified assertions (so that a
// model can be produced) and without the final check-sat.
func (o *Obligation) queryRelaxed() string {
	q := o.query(false)
	var b strings.Builder
	for _, l := range strings.Split(q, "\n") {
		if l == "(check-sat)" || strings.Contains(l, "(forall ") && !strings.HasPrefix(l, "(assert (not ") {
			continue
		}
		b.WriteString(l)
		b.WriteByte('\n')
	}
	return b.String()
}

func (eng *Engine) replayModel(prop string, o *Obligation, rep map[string]any) {
	if o.FC == nil || o.VC == nil || !panicKinds[o.Kind] || o.Expect == "sat" {
		return
	}
	fc := o.FC.root()
	fn := fc.fn
	if fn == nil || fn.Pkg == nil || fn.Parent() != nil {
		rep["replay_skipped"] = "not a package-level function"
		return
	}
	pi := eng.pkgs[fn.Pkg.Pkg.Path()]
	if pi == nil || len(pi.GoFiles) == 0 {
		return
	}
	dir := filepath.Join(replaysDir(), ".tmp")
	os.MkdirAll(dir, 0o755)
	rb := &replayBuilder{eng: eng, fc: fc, o: o, file: filepath.Join(dir, fmt.Sprintf("r%d", os.Getpid()))}
	var setup []string
	var args []string
	for _, p := range fn.Params {
		e, su, err := rb.build(fc.vals[p], p.Type(), 0)
		if err != nil {
			rep["replay_skipped"] = fmt.Sprintf("parameter %s: %v", p.Name(), err)
			return
		}
		setup = append(setup, su...)
		args = append(args, e)
	}
	call := ""
	if fn.Signature.Recv() != nil {
		call = fmt.Sprintf("(%s).%s(%s)", args[0], fn.Name(), strings.Join(args[1:], ", "))
	} else {
		call = fmt.Sprintf("%s(%s)", fn.Name(), strings.Join(args, ", "))
	}
	nres := fn.Signature.Results().Len()
	lhs := ""
	if nres > 0 {
		lhs = strings.Repeat("_, ", nres-1) + "_ = "
	}
	needBytes := strings.Contains(strings.Join(args, " ")+strings.Join(setup, " "), "bytes.")
	var src strings.Builder
	fmt.Fprintf(&src, "package %s\n\nimport (\n\t\"testing\"\n", pi.Types.Name())
	if needBytes {
		src.WriteString("\t\"bytes\"\n")
	}
	for p := range rb.imports {
		if p != "bytes" {
			fmt.Fprintf(&src, "\t%q\n", p)
		}
	}
	src.WriteString(")\n\n")
	fmt.Fprintf(&src, "// generated by /verif (govc) from the solver's model for obligation\n// %s\nfunc TestVerifReplay(t *testing.T) {\n", o.Name)
	src.WriteString("\tdefer func() {\n\t\tif r := recover(); r != nil {\n\t\t\tt.Fatalf(\"VERIF-REPLAY-PANIC: %v\", r)\n\t\t}\n\t}()\n")
	for _, s := range setup {
		src.WriteString("\t" + s + "\n")
	}
	fmt.Fprintf(&src, "\t%s%s\n}\n", lhs, call)
	pkgDir := filepath.Dir(pi.GoFiles[0])
	testFile := filepath.Join(dir, fmt.Sprintf("zz_replay_%d_test.go", os.Getpid()))
	os.WriteFile(testFile, []byte(src.String()), 0o644)
	defer os.Remove(testFile)
	ov := map[string]any{"Replace": map[string]string{filepath.Join(pkgDir, "zz_verif_replay_test.go"): testFile}}
	// a mutant under check is replayed against the mutant: the same overlay files apply
	for k, v := range eng.overlayFiles {
		ov["Replace"].(map[string]string)[k] = v
	}
	ovData, _ := json.Marshal(ov)
	ovFile := testFile + ".overlay.json"
	os.WriteFile(ovFile, ovData, 0o644)
	defer os.Remove(ovFile)
	cmd := exec.Command("go", "test", "-overlay", ovFile, "-vet=off", "-count=1", "-timeout", "60s", "-run", "^TestVerifReplay$", ".")
	cmd.Dir = pkgDir
	cmd.Env = append(os.Environ(), "GOFLAGS=")
	done := make(chan struct{})
	var out []byte
	go func() { out, _ = cmd.CombinedOutput(); close(done) }()
	select {
	case <-done:
	case <-time.After(120 * time.Second):
		if cmd.Process != nil {
			cmd.Process.Kill()
		}
		<-done
	}
	text := string(out)
	rep["replay_test"] = map[string]any{"pkg_dir": pkgDir, "source": src.String()}
	rep["replay_output"] = truncate(text, 6000)
	// the panic must be of the kind the obligation is about (a nil dereference on an input the
	// replayer could not fully build does not confirm a bounds obligation)
	want := map[string][]string{
		"bounds":     {"index out of range"},
		"slice":      {"slice bounds out of range", "cannot convert slice"},
		"nil":        {"nil pointer dereference", "nil map"},
		"div0":       {"integer divide by zero"},
		"make-neg":   {"makeslice", "out of range"},
		"typeassert": {"interface conversion"},
	}[o.Kind]
	matches := strings.Contains(text, "VERIF-REPLAY-PANIC")
	if matches && len(want) > 0 {
		matches = false
		for _, w := range want {
			if strings.Contains(text, w) {
				matches = true
			}
		}
	}
	if matches {
		o.replayed = true
		rep["replay_result"] = "the real function panics on the solver's input"
	} else if strings.Contains(text, "VERIF-REPLAY-PANIC") {
		rep["replay_result"] = "the real function panicked on this input, but not with the kind of panic the obligation is about (input only partly reconstructed)"
	} else {
		rep["replay_result"] = "the real function did not panic on this input (the model relies on something the replayer cannot build, or the obligation is not a panic)"
	}
	var _ *ssa.Function = fn
}
