package main

func (eng *Engine) replayModel(prop string, o *Obligation, rep map[string]any) {}
