package main

import (
	"go/types"
	"strings"

	"golang.org/x/tools/go/ssa"
)

// monitorAcquire models interference at a lock acquisition: when x.mu is declared (by a
// `monitor T.mu: f1, f2` line) to protect fields of x, a call x.mu.Lock() / RLock() means other
// goroutines may have changed those fields since this goroutine last held the lock. They are
// havocked and T's object invariant - which every holder of the lock re-establishes before it
// unlocks (the exit obligations of T's methods) - is assumed for x again. Facts about things
// this goroutine has not published yet (ghost state, locals) are kept.
func (fc *FnCtx) monitorAcquire(cc *ssa.CallCommon, st *State) {
	if len(fc.eng.cs.Monitors) == 0 || cc.IsInvoke() || len(cc.Args) == 0 {
		return
	}
	f := cc.StaticCallee()
	if f == nil || f.Pkg == nil || f.Pkg.Pkg.Path() != "sync" {
		return
	}
	if n := f.Name(); n != "Lock" && n != "RLock" {
		return
	}
	fa, ok := cc.Args[0].(*ssa.FieldAddr)
	if !ok {
		return
	}
	pt, ok := fa.X.Type().Underlying().(*types.Pointer)
	if !ok {
		return
	}
	su := structOf(pt.Elem())
	if su == nil {
		return
	}
	key := typeName(pt.Elem()) + "." + su.Field(fa.Field).Name()
	fields := fc.eng.cs.Monitors[key]
	if len(fields) == 0 {
		return
	}
	obj := fc.val(fa.X)
	var ts []WTarget
	for _, name := range fields {
		for i := 0; i < su.NumFields(); i++ {
			if su.Field(i).Name() != name {
				continue
			}
			fp := fc.vc.fieldPtr(obj.S, pt.Elem(), i)
			if fp.Loc == nil {
				ts = append(ts, fc.objectTargets(fp.S, su.Field(i).Type())...)
				continue
			}
			for _, lf := range cellLeaves(su.Field(i).Type()) {
				fc.regDecl(fp.Loc.Prefix+lf.suffix, len(fp.Loc.Idx), leafSort(lf.kind))
				ts = append(ts, WTarget{Region: fp.Loc.Prefix + lf.suffix, Idx: fp.Loc.Idx})
			}
		}
	}
	if len(ts) == 0 {
		return
	}
	fc.havoc(st, ts)
	// `ghost g` entries: g is a ghost array indexed by the object (first) (facts about
	// what the object has published, e.g. which of its sockets are open); another goroutine
	// that changed the protected fields changed that row too, so it is havocked with them
	for _, name := range fields {
		if !strings.HasPrefix(name, "ghost ") {
			continue
		}
		g := strings.TrimSpace(strings.TrimPrefix(name, "ghost "))
		sort := fc.eng.ghostSort(g)
		if !strings.HasPrefix(sort, "(Array Int ") {
			panic(specErr("monitor: ghost " + g + " is not a ghost array indexed by the object"))
		}
		// the object's row of a two-level array, or its entry of a one-level array
		row := strings.TrimSuffix(strings.TrimPrefix(sort, "(Array Int "), ")")
		cur := fc.ghost(st, g)
		fr := fc.vc.sc.fresh("gh_"+g+"_row", row)
		st.Gh[g] = fc.vc.sc.define("gh_"+g, sort, app("store", cur, obj.S, fr))
	}
	fc.note("lock acquisition on %s: fields %s havocked, object invariant assumed", key, strings.Join(fields, ", "))
	if oi := fc.eng.cs.ObjInvs[stripTypeParams(typeName(pt.Elem()))]; oi != nil {
		env := &Env{fc: fc, vars: map[string]Val{"this": obj}, cur: st, old: fc.root().old}
		save := fc.pkg
		if p := fc.eng.pkgs[oi.PkgPath]; p != nil {
			fc.pkg = p
		}
		for _, c := range oi.Clauses {
			fc.assume(fc.evalBool(c.Expr, env))
		}
		fc.pkg = save
	}
}
