package main

import (
	"go/token"
	"fmt"
	"go/ast"
	"go/parser"
	"strconv"
	"strings"
)

type Clause struct {
	Text string
	Expr ast.Expr
}

type LoopSpec struct {
	Invariants []Clause
	Decreases  *Clause
	Unroll     int
	Uses       []LemmaUse // lemma instances asserted at the loop head (after the invariants are assumed)
}

// LemmaUse is a proof hint: one instance of a proved lemma, with the given
// arguments, is assumed at a program point. Sound because the lemma itself is
// an obligation of the same check.
type LemmaUse struct {
	Name string
	Args []Clause
	Text string
}

type Contract struct {
	Key                                   string // as written (short)
	PkgPath                               string
	Kind                                  string // func, extern, fnfield, iface
	Params                                []string
	Results                               []string
	Requires                              []Clause
	Ensures                               []Clause
	Modifies                              []Clause
	Loops                                 map[int]*LoopSpec
	Uses                                  []LemmaUse // lemma instances asserted at function entry
	Nowrap, Trusted, Pure, NilRecv, NoNil bool
	Props                                 []string
	File                                  string
	Line                                  int
	Bound                                 bool
}

type SpecFunc struct {
	Name    string
	Params  []string
	Body    ast.Expr
	Text    string
	Rec     bool
	PkgPath string
}

type Lemma struct {
	Name    string
	PkgPath string
	Props   []string
	Clause  Clause
	Axiom   bool
	Params  [][2]string // (name, Go type): universally quantified values (and, implicitly, the heap they live in)
	Induct  string      // parameter the lemma is proved by induction on (natural numbers)
}

type ObjInv struct {
	TypeName string // pkgname.Type
	PkgPath  string
	Clauses  []Clause
}

// GlobalInv is an invariant over package-level variables: established by the
// package initialiser (an obligation), preserved because nothing but the
// initialiser stores to them (a structural obligation), assumed at the entry
// of every function of that package.
type GlobalInv struct {
	Props   []string
	PkgPath string
	Clause  Clause
	File    string
	Line    int
}

type ContractSet struct {
	Funcs      map[string]*Contract // by key: "pkgpath::name" for in-repo, "name" for extern
	Specs      map[string]*SpecFunc
	Lemmas     []*Lemma
	ObjInvs    map[string]*ObjInv
	GlobalInvs []*GlobalInv
	Ghosts     map[string]string    // name -> sort
	GhostTypes map[string][2]string // name -> (package path, Go type expression) for typed reference ghosts
	Errors     []string
	Hooks      []*Hook
	UFs        map[string]ufInfo
	Structs    []*Structural
	Monitors   map[string][]string // "pkg.T.mutexField" -> fields of T the mutex protects
}

// Structural is an obligation discharged on the SSA of the package (store
// sets, call sites, references, allocation sites), not by SMT.
type Structural struct {
	Props   []string
	Kind    string   // stores, calls, refs, allocs
	Target  string   // Type.field, callee name, function name, type name
	In      []string // functions (local names) allowed to contain it
	Value   string   // for stores: required constant value ("" = any)
	PkgPath string
	Text    string
	File    string
	Line    int
	Nowhere bool // `in nowhere`: no site may exist in the package
}

type Hook struct {
	Pattern string // callee short name pattern
	Kind    string // call, go, store
	After   bool   // updates run after the call with results bound
	Results []string
	IsGuard bool
	PkgPath string
	In      []string // enclosing functions (local names) the hook is limited to; empty = everywhere
	Params  []string
	When    *Clause
	Updates []GhostUpdate
	Uses    []LemmaUse
	Guard   *Clause // for guard rules: requires
	Props   []string
	Text    string
}

type GhostUpdate struct {
	Name string
	Expr Clause
}

func newContractSet() *ContractSet {
	return &ContractSet{Funcs: map[string]*Contract{}, Specs: map[string]*SpecFunc{}, ObjInvs: map[string]*ObjInv{}, Ghosts: map[string]string{}, GhostTypes: map[string][2]string{}, UFs: map[string]ufInfo{}}
}

var clauseKeywords = map[string]bool{"func": true, "extern": true, "spec": true, "lemma": true, "axiom": true, "objinv": true,
	"requires": true, "ensures": true, "modifies": true, "loop": true, "invariant": true, "decreases": true, "nowrap": true,
	"trusted": true, "pure": true, "nilrecv": true, "props": true, "fnfield": true, "iface": true, "ghost": true, "hook": true, "guard": true,
	"update": true, "when": true, "uf": true, "stable": true, "monitor": true, "unroll": true, "nonil": true, "structural": true, "globalinv": true, "use": true}

// parseContractLines parses the //@ lines of one file.
func (cs *ContractSet) parseLines(lines []string, pkgPath, pkgName, file string, startLine []int) {
	// join continuation lines
	type ln struct {
		text string
		line int
	}
	var ls []ln
	for i, l := range lines {
		t := strings.TrimSpace(l)
		if t == "" || strings.HasPrefix(t, "#") {
			continue
		}
		first := t
		if j := strings.IndexAny(t, " \t(:"); j >= 0 {
			first = t[:j]
		}
		if clauseKeywords[first] || len(ls) == 0 {
			ls = append(ls, ln{t, startLine[i]})
		} else {
			ls[len(ls)-1].text += " " + t
		}
	}
	var cur *Contract
	var curLoop *LoopSpec
	var curHook *Hook
	errf := func(l ln, format string, a ...any) {
		cs.Errors = append(cs.Errors, fmt.Sprintf("%s:%d: %s", file, l.line, fmt.Sprintf(format, a...)))
	}
	mk := func(l ln, text string) (Clause, bool) {
		e, err := parseSpecExpr(text)
		if err != nil {
			errf(l, "cannot parse %q: %v", text, err)
			return Clause{}, false
		}
		return Clause{Text: text, Expr: e}, true
	}
	for _, l := range ls {
		kw, rest := splitKw(l.text)
		switch kw {
		case "func", "extern", "fnfield", "iface":
			if kw == "extern" {
				_, rest = splitKw(rest) // skip "func"
			}
			name, params, results := parseHeader(rest)
			cur = &Contract{Key: name, PkgPath: pkgPath, Kind: kw, Params: params, Results: results, Loops: map[int]*LoopSpec{}, File: file, Line: l.line}
			curLoop = nil
			curHook = nil
			key := name
			if kw == "func" {
				key = pkgPath + "::" + name
			} else if kw == "fnfield" || kw == "iface" {
				if strings.Count(name, ".") == 1 && pkgName != "" {
					name = pkgName + "." + name
					cur.Key = name
				}
				key = kw + ":" + name
			}
			if _, dup := cs.Funcs[key]; dup {
				errf(l, "duplicate contract for %s", key)
			}
			cs.Funcs[key] = cur
		case "props":
			ps := strings.Fields(rest)
			if curHook != nil {
				curHook.Props = ps
			} else if cur != nil {
				cur.Props = ps
			}
		case "nowrap":
			cur.Nowrap = true
		case "trusted":
			cur.Trusted = true
		case "pure":
			cur.Pure = true
		case "nilrecv":
			cur.NilRecv = true
		case "nonil":
			cur.NoNil = true
		case "structural":
			// structural <props...>: <kind> <target> in <f1> | <f2> [value <const>]
			i := strings.Index(rest, ":")
			if i < 0 {
				errf(l, "structural: missing ':'")
				continue
			}
			sd := &Structural{Props: strings.Fields(rest[:i]), PkgPath: pkgPath, Text: l.text, File: file, Line: l.line}
			body := strings.TrimSpace(rest[i+1:])
			if j := strings.Index(body, " value "); j >= 0 {
				sd.Value = strings.TrimSpace(body[j+7:])
				body = strings.TrimSpace(body[:j])
			}
			j := strings.Index(body, " in ")
			if j < 0 {
				errf(l, "structural: missing 'in'")
				continue
			}
			head := strings.Fields(body[:j])
			if len(head) != 2 {
				errf(l, "structural: expected '<kind> <target> in ...'")
				continue
			}
			sd.Kind, sd.Target = head[0], head[1]
			for _, f := range strings.Split(body[j+4:], "|") {
				if f = strings.TrimSpace(f); f == "nowhere" {
					sd.Nowhere = true // the package must have no such site at all
				} else if f != "" {
					sd.In = append(sd.In, f)
				}
			}
			cs.Structs = append(cs.Structs, sd)
			cur, curLoop, curHook = nil, nil, nil
		case "requires":
			if curHook != nil {
				if c, ok := mk(l, rest); ok {
					if g := curHook.Guard; g != nil {
						// several requires lines of one guard are conjoined
						c = Clause{Text: g.Text + " && " + c.Text, Expr: &ast.BinaryExpr{X: &ast.ParenExpr{X: g.Expr}, Op: token.LAND, Y: &ast.ParenExpr{X: c.Expr}}}
					}
					curHook.Guard = &c
				}
				continue
			}
			if c, ok := mk(l, rest); ok && cur != nil {
				cur.Requires = append(cur.Requires, c)
			}
		case "ensures":
			if c, ok := mk(l, rest); ok && cur != nil {
				cur.Ensures = append(cur.Ensures, c)
			}
		case "modifies":
			if strings.TrimSpace(rest) == "nothing" {
				continue
			}
			for _, part := range splitTop(rest, ',') {
				if c, ok := mk(l, strings.TrimSpace(part)); ok && cur != nil {
					cur.Modifies = append(cur.Modifies, c)
				}
			}
		case "loop":
			f := strings.Fields(rest)
			n, _ := strconv.Atoi(f[0])
			curLoop = &LoopSpec{}
			if len(f) >= 3 && f[1] == "unroll" {
				curLoop.Unroll, _ = strconv.Atoi(f[2])
			}
			cur.Loops[n] = curLoop
		case "invariant":
			if curLoop == nil {
				errf(l, "invariant outside loop")
				continue
			}
			if c, ok := mk(l, rest); ok {
				curLoop.Invariants = append(curLoop.Invariants, c)
			}
		case "decreases":
			if c, ok := mk(l, rest); ok && curLoop != nil {
				curLoop.Decreases = &c
			}
		case "spec":
			k0, r0 := splitKw(rest)
			isRec := false
			if k0 == "rec" {
				isRec = true
				_, rest = splitKw(r0) // "func"
			} else {
				rest = r0
			}
			i := strings.Index(rest, "=")
			// find the '=' that follows the closing paren of the header
			depth := 0
			for j, ch := range rest {
				if ch == '(' {
					depth++
				} else if ch == ')' {
					depth--
				} else if ch == '=' && depth == 0 {
					i = j
					break
				}
			}
			hdr, body := rest[:i], strings.TrimSpace(rest[i+1:])
			name, params, _ := parseHeader(hdr)
			if c, ok := mk(l, body); ok {
				sf := &SpecFunc{Name: name, Params: params, Body: c.Expr, Text: body, Rec: isRec, PkgPath: pkgPath}
				cs.Specs[name] = sf
			}
			cur, curLoop, curHook = nil, nil, nil
		case "lemma", "axiom":
			// lemma NAME PROPS... [(p1 T1, p2 T2, ...)] [induction p]: body
			i := strings.Index(rest, ":")
			hdrText := rest[:i]
			var lparams [][2]string
			induct := ""
			if j := strings.Index(hdrText, "("); j >= 0 {
				k := strings.LastIndex(hdrText, ")")
				if k < j {
					errf(l, "lemma: unbalanced parameter list")
					continue
				}
				for _, p := range splitTop(hdrText[j+1:k], ',') {
					f := strings.Fields(strings.TrimSpace(p))
					if len(f) >= 2 {
						lparams = append(lparams, [2]string{f[0], strings.Join(f[1:], " ")})
					}
				}
				tail := strings.Fields(hdrText[k+1:])
				if len(tail) == 2 && tail[0] == "induction" {
					induct = tail[1]
				}
				hdrText = hdrText[:j]
			}
			hdr := strings.Fields(hdrText)
			if c, ok := mk(l, strings.TrimSpace(rest[i+1:])); ok {
				lm := &Lemma{Name: hdr[0], PkgPath: pkgPath, Clause: c, Axiom: kw == "axiom", Params: lparams, Induct: induct}
				for _, h := range hdr[1:] {
					lm.Props = append(lm.Props, h)
				}
				cs.Lemmas = append(cs.Lemmas, lm)
			}
			cur, curLoop, curHook = nil, nil, nil
		case "objinv":
			i := strings.Index(rest, ":")
			tn := strings.TrimSpace(rest[:i])
			if !strings.Contains(tn, ".") {
				tn = pkgName + "." + tn
			}
			if c, ok := mk(l, strings.TrimSpace(rest[i+1:])); ok {
				oi := cs.ObjInvs[tn]
				if oi == nil {
					oi = &ObjInv{TypeName: tn, PkgPath: pkgPath}
					cs.ObjInvs[tn] = oi
				}
				oi.Clauses = append(oi.Clauses, c)
			}
			cur, curLoop, curHook = nil, nil, nil
		case "monitor":
			// monitor T.mu: f1, f2, ... - the mutex field mu of T protects these fields of T:
			// at every acquisition of x.mu they may have been changed by other goroutines
			// (they are havocked and T's object invariant is assumed again)
			i := strings.Index(rest, ":")
			if i < 0 {
				errf(l, "monitor: expected `monitor T.mu: f1, f2`")
				continue
			}
			tn := strings.TrimSpace(rest[:i])
			if strings.Count(tn, ".") == 1 {
				tn = pkgName + "." + tn
			}
			if cs.Monitors == nil {
				cs.Monitors = map[string][]string{}
			}
			for _, f := range strings.Split(rest[i+1:], ",") {
				if f = strings.TrimSpace(f); f != "" {
					cs.Monitors[tn] = append(cs.Monitors[tn], f)
				}
			}
			cur, curLoop, curHook = nil, nil, nil
		case "globalinv":
			// globalinv <props...>: <expr over package-level variables>
			i := strings.Index(rest, ":")
			if c, ok := mk(l, strings.TrimSpace(rest[i+1:])); ok {
				cs.GlobalInvs = append(cs.GlobalInvs, &GlobalInv{Props: strings.Fields(rest[:i]), PkgPath: pkgPath, Clause: c, File: file, Line: l.line})
			}
			cur, curLoop, curHook = nil, nil, nil
		case "uf":
			name, args, ret := parseUF(rest)
			cs.UFs[name] = ufInfo{args, ret}
		case "ghost":
			f := strings.Fields(rest) // var NAME SORT
			if len(f) >= 4 && f[2] == "ref" {
				// ghost var NAME ref <Go pointer type>: a typed reference (sort Int)
				cs.Ghosts[f[1]] = "Int"
				cs.GhostTypes[f[1]] = [2]string{pkgPath, strings.Join(f[3:], " ")}
			} else if len(f) >= 3 {
				cs.Ghosts[f[1]] = strings.Join(f[2:], " ")
			}
		case "hook", "guard":
			// hook [after] call|go|store <pattern>(params) [(results)]  /  guard call|go|store <pattern>(params)
			k2, r2 := splitKw(rest)
			after := false
			if k2 == "after" {
				after = true
				k2, r2 = splitKw(r2)
			}
			if k2 != "call" && k2 != "go" && k2 != "store" && k2 != "load" && k2 != "mapwrite" && k2 != "mapinsert" && k2 != "mapdelete" && k2 != "make" && k2 != "elemstore" {
				errf(l, "hook/guard: expected call, go or store, got %q", k2)
				continue
			}
			var scope []string
			if j := strings.LastIndex(r2, ") in "); j >= 0 {
				for _, f := range strings.Split(r2[j+5:], "|") {
					if f = strings.TrimSpace(f); f != "" {
						scope = append(scope, f)
					}
				}
				r2 = r2[:j+1]
			}
			name, params, results := parseHeader(r2)
			curHook = &Hook{Pattern: name, Params: params, Results: results, Text: l.text, Kind: k2, After: after, IsGuard: kw == "guard", PkgPath: pkgPath, In: scope}
			cs.Hooks = append(cs.Hooks, curHook)
			cur, curLoop = nil, nil
		case "when":
			if c, ok := mk(l, rest); ok && curHook != nil {
				curHook.When = &c
			}
		case "update":
			i := strings.Index(rest, "=")
			if c, ok := mk(l, strings.TrimSpace(rest[i+1:])); ok && curHook != nil {
				curHook.Updates = append(curHook.Updates, GhostUpdate{strings.TrimSpace(rest[:i]), c})
			}
		case "use":
			// use LEMMA(arg, ...): assert one instance of a proved lemma here (a proof hint)
			i := strings.Index(rest, "(")
			j := strings.LastIndex(rest, ")")
			if i < 0 || j < i {
				errf(l, "use: expected LEMMA(args)")
				continue
			}
			u := LemmaUse{Name: strings.TrimSpace(rest[:i]), Text: rest}
			okAll := true
			for _, a := range splitTop(rest[i+1:j], ',') {
				c, ok := mk(l, strings.TrimSpace(a))
				if !ok {
					okAll = false
					break
				}
				u.Args = append(u.Args, c)
			}
			if !okAll {
				continue
			}
			switch {
			case curHook != nil:
				curHook.Uses = append(curHook.Uses, u)
			case curLoop != nil:
				curLoop.Uses = append(curLoop.Uses, u)
			case cur != nil:
				cur.Uses = append(cur.Uses, u)
			}
		default:
			errf(l, "unknown contract keyword %q", kw)
		}
	}
}

func splitKw(s string) (string, string) {
	s = strings.TrimSpace(s)
	i := strings.IndexAny(s, " \t")
	if i < 0 {
		return s, ""
	}
	return s[:i], strings.TrimSpace(s[i+1:])
}

// parseHeader parses `Name(p1, p2) (r1, r2)`; Name may contain a receiver part
// such as (*Pacer).Budget.
func parseHeader(s string) (name string, params, results []string) {
	s = strings.TrimSpace(s)
	// receiver-style name begins with '('
	i := 0
	if strings.HasPrefix(s, "(") {
		j := strings.Index(s, ")")
		i = j + 1
	}
	k := strings.IndexAny(s[i:], "( ")
	if k < 0 {
		return s, nil, nil
	}
	name = strings.TrimSpace(s[:i+k])
	rest := strings.TrimSpace(s[i+k:])
	grp := func(r string) ([]string, string) {
		if !strings.HasPrefix(r, "(") {
			return nil, r
		}
		j := strings.Index(r, ")")
		var out []string
		for _, p := range strings.Split(r[1:j], ",") {
			p = strings.TrimSpace(p)
			if f := strings.Fields(p); len(f) > 0 {
				out = append(out, f[0])
			}
		}
		return out, strings.TrimSpace(r[j+1:])
	}
	params, rest = grp(rest)
	results, _ = grp(rest)
	return
}

func splitTop(s string, sep byte) []string {
	var out []string
	depth := 0
	start := 0
	inq := false
	for i := 0; i < len(s); i++ {
		c := s[i]
		if c == '"' {
			inq = !inq
		}
		if inq {
			continue
		}
		switch c {
		case '(', '[', '{':
			depth++
		case ')', ']', '}':
			depth--
		default:
			if c == sep && depth == 0 {
				out = append(out, s[start:i])
				start = i + 1
			}
		}
	}
	out = append(out, s[start:])
	return out
}

// rewriteImplies turns `a ==> b` (lowest precedence, right associative) into
// implies(a, b) at every bracket depth.
func rewriteImplies(s string) string {
	parts := splitTop(s, ',')
	for i, p := range parts {
		parts[i] = rewriteOne(p)
	}
	return strings.Join(parts, ",")
}

func rewriteOne(s string) string {
	// top-level ==>
	depth := 0
	inq := false
	for i := 0; i+2 < len(s); i++ {
		c := s[i]
		if c == '"' {
			inq = !inq
		}
		if inq {
			continue
		}
		switch c {
		case '(', '[', '{':
			depth++
		case ')', ']', '}':
			depth--
		}
		if depth == 0 && s[i:i+3] == "==>" {
			return "implies(" + rewriteOne(s[:i]) + ", " + rewriteOne(s[i+3:]) + ")"
		}
	}
	// recurse into bracket groups
	var b strings.Builder
	depth = 0
	start := -1
	inq = false
	for i := 0; i < len(s); i++ {
		c := s[i]
		if c == '"' {
			inq = !inq
		}
		if inq {
			if depth == 0 {
				b.WriteByte(c)
			}
			continue
		}
		switch c {
		case '(', '[':
			if depth == 0 {
				start = i
				b.WriteByte(c)
			}
			depth++
		case ')', ']':
			depth--
			if depth == 0 {
				b.WriteString(rewriteImplies(s[start+1 : i]))
				b.WriteByte(c)
			}
		default:
			if depth == 0 {
				b.WriteByte(c)
			}
		}
	}
	return b.String()
}

func parseSpecExpr(text string) (ast.Expr, error) {
	return parser.ParseExpr(rewriteImplies(text))
}
