package main

import (
	"fmt"
	"go/constant"
	"go/types"
	"sort"
	"strings"

	"golang.org/x/tools/go/ssa"
	"golang.org/x/tools/go/ssa/ssautil"
)

// structuralObligations discharges the `structural` declarations tagged with
// prop on the SSA of their package: they are ownership / call-graph facts a
// modular proof needs in a language without ownership types.
//
//	stores T.f in F1 | F2 [value c]  every store to field f of T in the package is inside F1/F2 (and stores constant c)
//	calls  X   in F1 | F2            every call of X (static callee short name or Iface.Method) is inside F1/F2
//	refs   g   in F1 | F2            every reference to function g (call, go, defer, method value, closure) is inside F1/F2
//	allocs T   in F1 | F2            every allocation of a T (new, composite literal) is inside F1/F2
//
// A function name Outer covers its anonymous functions Outer$k unless those are
// listed explicitly.
func (eng *Engine) structuralObligations(prop string) []*Obligation {
	var out []*Obligation
	for _, sd := range eng.cs.Structs {
		if !hasProp(sd.Props, prop) {
			continue
		}
		pi := eng.pkgs[sd.PkgPath]
		if pi == nil || pi.SSA == nil {
			out = append(out, &Obligation{Name: sd.Text + "#0", Kind: "structural", Result: "sat", Solver: "ssa-scan", Model: "package " + sd.PkgPath + " not loaded"})
			continue
		}
		name := fmt.Sprintf("%s/structural/%s %s in %s", shortenPaths(sd.PkgPath+"/"), sd.Kind, sd.Target, strings.Join(sd.In, "|"))
		if sd.Nowhere {
			name += "nowhere"
		}
		if sd.Value != "" {
			name += " value " + sd.Value
		}
		name = strings.TrimPrefix(name, "/")
		o := &Obligation{Name: pi.Types.Name() + "." + name + "#0", Kind: "structural", Fn: pi.Types.Name(), Solver: "ssa-scan"}
		bad, sites := eng.scanStructural(pi, sd)
		// binding: every function named in the `in` list must exist, and the target must exist
		for _, f := range sd.In {
			if eng.findFunction(sd.PkgPath, f) == nil {
				bad = append(bad, fmt.Sprintf("function %s named by the declaration does not exist", f))
			}
		}
		if sites == 0 && len(bad) == 0 && !sd.Nowhere {
			bad = append(bad, fmt.Sprintf("no %s site of %s found in package %s: the declaration no longer binds to the code", sd.Kind, sd.Target, pi.Types.Name()))
		}
		if len(bad) == 0 {
			o.Result = "unsat"
		} else {
			o.Result = "sat"
			sort.Strings(bad)
			o.Model = strings.Join(bad, "\n")
		}
		o.Src = fmt.Sprintf("%s:%d", sd.File, sd.Line)
		out = append(out, o)
	}
	return out
}

func (eng *Engine) pkgFunctions(pi *PkgInfo) []*ssa.Function {
	var fns []*ssa.Function
	seen := map[*ssa.Function]bool{}
	var visit func(f *ssa.Function)
	visit = func(f *ssa.Function) {
		if f == nil || seen[f] {
			return
		}
		seen[f] = true
		fns = append(fns, f)
		for _, a := range f.AnonFuncs {
			visit(a)
		}
	}
	var names []string
	for n := range pi.SSA.Members {
		names = append(names, n)
	}
	sort.Strings(names)
	for _, n := range names {
		switch m := pi.SSA.Members[n].(type) {
		case *ssa.Function:
			visit(m)
		case *ssa.Type:
			for _, T := range []types.Type{m.Type(), types.NewPointer(m.Type())} {
				ms := eng.prog.MethodSets.MethodSet(T)
				for i := 0; i < ms.Len(); i++ {
					f := eng.prog.MethodValue(ms.At(i))
					if f != nil && f.Synthetic == "" && f.Pkg == pi.SSA {
						visit(f)
					}
				}
			}
		}
	}
	// instances of this package's generic functions and methods (their bodies carry the
	// concrete calls and stores; the generic originals of methods are not in any method set)
	var inst []*ssa.Function
	for f := range ssautil.AllFunctions(eng.prog) {
		if o := f.Origin(); o != nil && o.Pkg == pi.SSA && len(f.Blocks) > 0 && closedInstance(f) {
			inst = append(inst, f)
		}
	}
	sort.Slice(inst, func(i, j int) bool { return inst[i].String() < inst[j].String() })
	for _, f := range inst {
		visit(f)
	}
	return fns
}

// closedInstance: every type argument of the instance is a concrete type (instances
// reached only from the body of a generic original still mention its type parameters).
func closedInstance(f *ssa.Function) bool {
	var open func(t types.Type, d int) bool
	open = func(t types.Type, d int) bool {
		if d > 8 {
			return false
		}
		switch u := t.(type) {
		case *types.TypeParam:
			return true
		case *types.Named:
			if ta := u.TypeArgs(); ta != nil {
				for i := 0; i < ta.Len(); i++ {
					if open(ta.At(i), d+1) {
						return true
					}
				}
			}
		case *types.Pointer:
			return open(u.Elem(), d+1)
		case *types.Slice:
			return open(u.Elem(), d+1)
		case *types.Array:
			return open(u.Elem(), d+1)
		case *types.Map:
			return open(u.Key(), d+1) || open(u.Elem(), d+1)
		}
		return false
	}
	for _, t := range f.TypeArgs() {
		if open(t, 0) {
			return false
		}
	}
	return true
}

func allowedIn(f *ssa.Function, in []string) bool {
	for g := f; g != nil; g = g.Parent() {
		n := localName(g)
		if g.Origin() != nil {
			n = localName(g.Origin()) // an instance of a generic function goes by its origin's name
		}
		ns := stripTypeParams(n)
		for _, a := range in {
			if a == n || a == ns {
				return true
			}
		}
	}
	return false
}

// scanAlways decides `always <callee> in F`: every path of F from its entry to a return
// passes through a call of callee (the call is not skipped on any branch). Paths that end in
// a panic do not count. Calls in contract-less helpers are not looked for: the call has to be
// in F itself.
func (eng *Engine) scanAlways(pi *PkgInfo, sd *Structural) (bad []string, sites int) {
	target := sd.Target
	for _, fname := range sd.In {
		f := eng.findFunction(sd.PkgPath, fname)
		if f == nil || len(f.Blocks) == 0 {
			continue
		}
		has := map[*ssa.BasicBlock]bool{}
		for _, b := range f.Blocks {
			for _, in := range b.Instrs {
				ci, isCall := in.(ssa.CallInstruction)
				if !isCall {
					continue
				}
				if _, isDefer := in.(*ssa.Defer); isDefer {
					continue
				}
				if _, isGo := in.(*ssa.Go); isGo {
					continue
				}
				n := ""
				cc := ci.Common()
				if cc.IsInvoke() {
					n = typeName(cc.Value.Type()) + "." + cc.Method.Name()
				} else if sf := cc.StaticCallee(); sf != nil {
					n = stripTypeParams(shortenPaths(sf.String()))
				}
				if n == target || n == pi.Types.Name()+"."+target || strings.Replace(n, pi.Types.Name()+".", "", 1) == target {
					has[b] = true
					sites++
				}
			}
		}
		// is a return reachable from the entry without passing through a block that calls it?
		seen := map[*ssa.BasicBlock]bool{}
		var stack []*ssa.BasicBlock
		if !has[f.Blocks[0]] {
			stack = append(stack, f.Blocks[0])
		}
		for len(stack) > 0 {
			b := stack[len(stack)-1]
			stack = stack[:len(stack)-1]
			if seen[b] {
				continue
			}
			seen[b] = true
			if len(b.Instrs) > 0 {
				if _, isRet := b.Instrs[len(b.Instrs)-1].(*ssa.Return); isRet {
					p := eng.fset.Position(b.Instrs[len(b.Instrs)-1].Pos())
					bad = append(bad, fmt.Sprintf("%s can return (%s:%d) without having called %s", localName(f), p.Filename, p.Line, target))
					continue
				}
			}
			for _, s := range b.Succs {
				if !has[s] && !seen[s] {
					stack = append(stack, s)
				}
			}
		}
	}
	return bad, sites
}

func (eng *Engine) scanStructural(pi *PkgInfo, sd *Structural) (bad []string, sites int) {
	if sd.Kind == "always" {
		return eng.scanAlways(pi, sd)
	}
	pkgName := pi.Types.Name()
	qual := func(s string) string {
		if strings.Contains(s, ".") && !strings.HasPrefix(s, "(") {
			// Type.field / Iface.Method / pkg.Func given without package: try with this package's name
			return s
		}
		return s
	}
	target := qual(sd.Target)
	site := func(f *ssa.Function, in ssa.Instruction) string {
		p := eng.fset.Position(in.Pos())
		return fmt.Sprintf("%s (%s:%d)", localName(f), p.Filename, p.Line)
	}
	matchName := func(name string) bool {
		name = strings.TrimSuffix(strings.TrimSuffix(name, "$bound"), "$thunk")
		name = stripTypeParams(name) // instances of generic functions and methods go by the generic's name
		if name == target || name == pkgName+"."+target {
			return true
		}
		// (*pkg.T).M and (pkg.T).M may be written without the package qualifier
		if strings.HasPrefix(name, "(") {
			if i := strings.Index(name, "."); i > 0 && i < strings.Index(name, ")") {
				j := strings.LastIndexAny(name[:i], "(*")
				if name[:j+1]+name[i+1:] == target {
					return true
				}
			}
		}
		return false
	}
	// a contract-less helper that is only ever called (statically) from allowed functions, or
	// from other such helpers, counts as part of them: extracting a few lines of an allowed
	// function into a helper does not widen who touches the target
	fns := eng.pkgFunctions(pi)
	callers := map[*ssa.Function][]*ssa.Function{}
	escapes := map[*ssa.Function]bool{} // referenced other than as the callee of a static call
	for _, f := range fns {
		for _, b := range f.Blocks {
			for _, in := range b.Instrs {
				var callee *ssa.Function
				if ci, isCall := in.(ssa.CallInstruction); isCall {
					callee = ci.Common().StaticCallee()
					if callee != nil {
						callers[callee] = append(callers[callee], f)
					}
				}
				var ops []*ssa.Value
				for _, op := range in.Operands(ops) {
					if op == nil || *op == nil {
						continue
					}
					if g, isFn := (*op).(*ssa.Function); isFn && g != callee {
						escapes[g] = true
					}
				}
			}
		}
	}
	var helperOK func(f *ssa.Function, depth int) bool
	helperOK = func(f *ssa.Function, depth int) bool {
		if allowedIn(f, sd.In) {
			return true
		}
		if depth > 3 || escapes[f] || len(callers[f]) == 0 || eng.contractFor(f) != nil || f.Parent() != nil {
			return false
		}
		if f.Object() != nil && f.Object().Exported() {
			return false
		}
		for _, c := range callers[f] {
			if c != f && !helperOK(c, depth+1) {
				return false
			}
		}
		return true
	}
	for _, f := range fns {
		ok := helperOK(f, 0)
		for _, b := range f.Blocks {
			for _, in := range b.Instrs {
				switch sd.Kind {
				case "stores":
					st, isStore := in.(*ssa.Store)
					if !isStore {
						continue
					}
					fa, isFA := st.Addr.(*ssa.FieldAddr)
					if !isFA {
						continue
					}
					st0 := fa.X.Type().Underlying().(*types.Pointer).Elem()
					n := typeName(st0) + "." + structOf(st0).Field(fa.Field).Name()
					if !matchName(n) {
						continue
					}
					sites++
					if !ok {
						bad = append(bad, "store to "+n+" in "+site(f, in))
						continue
					}
					if sd.Value != "" {
						c, isConst := st.Val.(*ssa.Const)
						got := "<non-constant>"
						if isConst {
							if c.Value == nil {
								got = "nil"
							} else if c.Value.Kind() == constant.Bool {
								got = fmt.Sprint(constant.BoolVal(c.Value))
							} else {
								got = c.Value.ExactString()
							}
						}
						if got != sd.Value {
							bad = append(bad, fmt.Sprintf("store to %s in %s stores %s, not the constant %s", n, site(f, in), got, sd.Value))
						}
					}
				case "uses":
					// any access (read or write) to a struct field: the field is private to the listed functions
					fa, isFA := in.(*ssa.FieldAddr)
					if !isFA {
						continue
					}
					st0 := fa.X.Type().Underlying().(*types.Pointer).Elem()
					n := typeName(st0) + "." + structOf(st0).Field(fa.Field).Name()
					if !matchName(n) {
						continue
					}
					sites++
					if !ok {
						bad = append(bad, "use of "+n+" in "+site(f, in))
					}
				case "calls":
					ci, isCall := in.(ssa.CallInstruction)
					if !isCall {
						continue
					}
					cc := ci.Common()
					n := ""
					if cc.IsInvoke() {
						n = typeName(cc.Value.Type()) + "." + cc.Method.Name()
					} else if sf := cc.StaticCallee(); sf != nil {
						n = shortenPaths(sf.String())
					} else if u, isU := cc.Value.(*ssa.UnOp); isU {
						if fa, isFA := u.X.(*ssa.FieldAddr); isFA {
							st0 := fa.X.Type().Underlying().(*types.Pointer).Elem()
							n = typeName(st0) + "." + structOf(st0).Field(fa.Field).Name()
						}
					}
					if n == "" || !matchName(n) {
						continue
					}
					sites++
					if !ok {
						bad = append(bad, "call of "+n+" in "+site(f, in))
					}
				case "refs":
					var ops []*ssa.Value
					for _, op := range in.Operands(ops) {
						if op == nil || *op == nil {
							continue
						}
						g, isFn := (*op).(*ssa.Function)
						if !isFn {
							continue
						}
						n := shortenPaths(g.String())
						if !matchName(n) && localName(g) != target {
							continue
						}
						sites++
						if !ok {
							bad = append(bad, "reference to "+n+" in "+site(f, in))
						}
					}
				case "allocs":
					var T types.Type
					switch a := in.(type) {
					case *ssa.Alloc:
						T = a.Type().(*types.Pointer).Elem()
					default:
						continue
					}
					if !matchName(typeName(T)) {
						continue
					}
					sites++
					if !ok {
						bad = append(bad, "allocation of "+typeName(T)+" in "+site(f, in))
					}
				}
			}
		}
	}
	return bad, sites
}
