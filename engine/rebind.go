package main

import (
	"go/token"
	"encoding/json"
	"fmt"
	"go/ast"
	"go/types"
	"os"
	"path/filepath"
	"sort"
	"strings"
	"sync"

	"golang.org/x/tools/go/ssa"
)

// Local-variable names in loop invariants and hooks are the one place where a contract
// depends on an incidental detail of the code: renaming a local must not raise an alarm.
// contracts/locals.json records, for every (function, local name) a contract refers to on
// the pinned tree, the Go type of that local. When a name no longer resolves, the
// evaluator looks for the locals of the recorded type that the contract does not name
// otherwise; if there is exactly one, the name is bound to it. The binding is only a
// guess about which variable is meant: every obligation is still generated from the code
// and checked, so a wrong guess can only fail, never prove anything false.

var (
	localsMu     sync.Mutex
	localsSeen   = map[string]map[string]string{} // fn -> name -> type (this run)
	localsOnDisk map[string]map[string]string
	localsLoaded bool
)

func localsFile() string { return filepath.Join(verifRoot, "contracts", "locals.json") }

func loadLocals() {
	localsMu.Lock()
	defer localsMu.Unlock()
	if localsLoaded {
		return
	}
	localsLoaded = true
	localsOnDisk = map[string]map[string]string{}
	if data, err := os.ReadFile(localsFile()); err == nil {
		json.Unmarshal(data, &localsOnDisk)
	}
}

// noteLocal records that a contract of fn referred to local `name` of the given type.
func (fc *FnCtx) noteLocal(name string, T types.Type, role string) {
	if T == nil || os.Getenv("VERIF_RECORD_LOCALS") == "" {
		return
	}
	fn := fc.eng.shortFn(fc.root().fn)
	localsMu.Lock()
	defer localsMu.Unlock()
	if localsSeen[fn] == nil {
		localsSeen[fn] = map[string]string{}
	}
	rec := types.TypeString(T, nil)
	if role != "" {
		rec += " @" + role // loop-carried variable of that loop (a phi at its header)
	} else if old := localsSeen[fn][name]; strings.Contains(old, " @") {
		return // keep the more specific record
	} else if k, n := typeOrdinal(fc.root().fn, name); k >= 0 {
		rec += fmt.Sprintf(" #%d/%d", k, n) // k-th of n locals of that type, in declaration order
	}
	localsSeen[fn][name] = rec
}

// saveLocals merges this run's records into contracts/locals.json (maintenance runs only).
func saveLocals() {
	if os.Getenv("VERIF_RECORD_LOCALS") == "" {
		return
	}
	loadLocals()
	localsMu.Lock()
	defer localsMu.Unlock()
	for fn, m := range localsSeen {
		if localsOnDisk[fn] == nil {
			localsOnDisk[fn] = map[string]string{}
		}
		for n, t := range m {
			localsOnDisk[fn][n] = t
		}
	}
	data, _ := json.MarshalIndent(localsOnDisk, "", " ")
	os.WriteFile(localsFile(), append(data, '\n'), 0o644)
}

// debugLocals lists the named locals of f (through their DebugRefs) with their types; struct
// field names (keys of composite literals also get debug references) are not locals.
func debugLocals(f *ssa.Function) map[string]types.Type {
	out := map[string]types.Type{}
	for _, l := range orderedLocals(f) {
		out[l.name] = l.T
	}
	return out
}

type localVar struct {
	name string
	T    types.Type
	pos  token.Pos
	parm bool
}

// orderedLocals: parameters and locals of f in order of first appearance.
func orderedLocals(f *ssa.Function) []localVar {
	seen := map[string]bool{}
	var out []localVar
	for _, b := range f.Blocks {
		for _, in := range b.Instrs {
			d, ok := in.(*ssa.DebugRef)
			if !ok {
				continue
			}
			id, ok := d.Expr.(*ast.Ident)
			if !ok || d.Object() == nil {
				continue
			}
			v, isVar := d.Object().(*types.Var)
			if !isVar || v.IsField() || seen[id.Name] {
				continue
			}
			seen[id.Name] = true
			isParam := false
			for _, p := range f.Params {
				if p.Name() == id.Name {
					isParam = true
				}
			}
			out = append(out, localVar{id.Name, v.Type(), v.Pos(), isParam})
		}
	}
	sort.SliceStable(out, func(i, j int) bool { return out[i].pos < out[j].pos })
	return out
}

// typeOrdinal: name is the k-th of n non-parameter locals of its type (in declaration order).
func typeOrdinal(f *ssa.Function, name string) (k, n int) {
	ls := orderedLocals(f)
	var T string
	for _, l := range ls {
		if l.name == name {
			T = types.TypeString(l.T, nil)
		}
	}
	k = -1
	for _, l := range ls {
		if l.parm || types.TypeString(l.T, nil) != T {
			continue
		}
		if l.name == name {
			k = n
		}
		n++
	}
	return k, n
}

// rebindLocal: name does not resolve in fn any more; return the unique other local of the
// recorded type (and role: loop-carried variable of the same loop) that the contract does
// not already name.
func (fc *FnCtx) rebindLocal(name string, li *loopInfo) (string, bool) {
	loadLocals()
	root := fc.root()
	fn := fc.eng.shortFn(root.fn)
	rec := localsOnDisk[fn]
	if rec == nil || rec[name] == "" {
		return "", false
	}
	locals := debugLocals(root.fn)
	if fc != root {
		// a loop moved into an inlined helper: its loop-carried variables are the helper's
		for n, T := range debugLocals(fc.fn) {
			if _, dup := locals[n]; !dup {
				locals[n] = T
			}
		}
	}
	if _, still := locals[name]; still {
		return "", false // the name exists but is not in scope here: not a rename
	}
	want, role, _ := strings.Cut(rec[name], " @")
	if role == "" {
		want = rec[name]
	}
	var cands []string
	if role != "" {
		if li == nil || role != fmt.Sprintf("phi:loop%d", li.index) {
			return "", false
		}
		for _, in := range li.header.Instrs {
			phi, ok := in.(*ssa.Phi)
			if !ok {
				break
			}
			n := phi.Comment
			if _, named := rec[n]; named || n == "" || n == "rangeindex" {
				continue
			}
			if T, ok := locals[n]; ok && types.TypeString(T, nil) == want {
				cands = append(cands, n)
			}
		}
	} else {
		ord := ""
		want, ord, _ = strings.Cut(want, " #")
		var same []string // non-parameter locals of the wanted type, in declaration order
		for _, l := range orderedLocals(root.fn) {
			if !l.parm && types.TypeString(l.T, nil) == want {
				same = append(same, l.name)
			}
		}
		var k, n int
		if _, err := fmt.Sscanf(ord, "%d/%d", &k, &n); err == nil && n == len(same) && k < n {
			// same number of locals of that type as on the pinned tree: the one in the same place
			if _, named := rec[same[k]]; !named || same[k] == name {
				cands = []string{same[k]}
			}
		}
		if len(cands) == 0 {
			for _, nm := range same {
				if _, named := rec[nm]; !named {
					cands = append(cands, nm)
				}
			}
		}
	}
	sort.Strings(cands)
	if len(cands) != 1 {
		return "", false
	}
	fc.note("local %q no longer exists in %s; bound to %q, the only other local of type %s", name, fn, cands[0], rec[name])
	return cands[0], true
}

// recordedParam: the name parameter i of the function had on the pinned tree, when it
// differs from its present name and no present parameter carries that name.
func (fc *FnCtx) recordedParam(i int, now string) string {
	fn := fc.eng.shortFn(fc.fn)
	if os.Getenv("VERIF_RECORD_LOCALS") != "" {
		localsMu.Lock()
		if localsSeen[fn] == nil {
			localsSeen[fn] = map[string]string{}
		}
		localsSeen[fn]["#param"+itoa(int64(i))] = now
		localsMu.Unlock()
	}
	loadLocals()
	old := localsOnDisk[fn]["#param"+itoa(int64(i))]
	if old == "" || old == now || old == "_" {
		return ""
	}
	for _, p := range fc.fn.Params {
		if p.Name() == old {
			return ""
		}
	}
	return old
}

// recordedParamName: the name parameter i of f had on the pinned tree, when no present
// parameter of f carries that name (used where a callee's contract is evaluated at a call).
func (eng *Engine) recordedParamName(f *ssa.Function, i int) string {
	loadLocals()
	old := localsOnDisk[eng.shortFn(f)]["#param"+itoa(int64(i))]
	if old == "" || old == "_" {
		return ""
	}
	for _, p := range f.Params {
		if p.Name() == old {
			return ""
		}
	}
	return old
}
